#!/bin/sh
# Build the verification engines from files on disk only (offline).
set -e
cd "$(dirname "$0")"
export CARGO_NET_OFFLINE=true
mkdir -p work/q work/out evidence replays
(cd symx && cargo build --release --target-dir ../work/target-symx)
echo "setup ok"
