//! Generic driver: harness -> symbolic paths -> queries -> verdicts -> native replay.
use crate::explore::*;
use crate::scalar::*;
use crate::smt::*;
use crate::sym::{self, Atom, Mode, Node, Sym};
use serde::Serialize;
use serde_json::{json, Value};
use std::cell::RefCell;
use std::collections::{BTreeMap, BTreeSet, HashMap};

pub struct CutSpec<T> {
    pub node: T,
    pub name: String,
    pub constraints: Vec<String>,
    /// relational constraints between terms (may mention this and earlier cut nodes)
    pub rels: Vec<Goal<T>>,
    /// local cuts are applied only to goals that name them (prove_cuts)
    pub local: bool,
}

pub struct Outcome<T> {
    pub assumes: Vec<Goal<T>>,
    pub goals: Vec<Goal<T>>,
    /// deliberately wrong goals: the solver must refute them (vacuity guard)
    pub twins: Vec<Goal<T>>,
    /// existential: the relation must be refutable (sat + native replay) on at least one feasible path
    pub witnesses: Vec<Goal<T>>,
    pub cuts: Vec<CutSpec<T>>,
    /// goals that use the cuts (all later goals do once `use_cuts` is set)
    pub cut_from_goal: Option<usize>,
    pub notes: Vec<String>,
    /// structural findings decided without the solver (reported as violations after native replay)
    pub structural: Vec<String>,
}
impl<T: Scalar> Outcome<T> {
    pub fn new() -> Self {
        Outcome { assumes: vec![], goals: vec![], twins: vec![], witnesses: vec![], cuts: vec![], cut_from_goal: None, notes: vec![], structural: vec![] }
    }
    pub fn assume(&mut self, name: impl Into<String>, l: T, rel: Rel, r: T) {
        self.assumes.push(goal(name, l, rel, r));
    }
    pub fn prove(&mut self, name: impl Into<String>, l: T, rel: Rel, r: T) {
        self.goals.push(goal(name, l, rel, r));
    }
    /// goal between positive terms built from products, quotients and constant powers: decided in log space
    pub fn prove_log(&mut self, name: impl Into<String>, l: T, rel: Rel, r: T) {
        let mut g = goal(name, l, rel, r);
        g.loglin = true;
        g.only_cuts = Some(vec![]); // log goals see the real multiplicative structure, no abstraction
        self.goals.push(g);
    }
    /// twin decided in log space
    pub fn twin_log(&mut self, name: impl Into<String>, l: T, rel: Rel, r: T) {
        let mut g = goal(name, l, rel, r);
        g.loglin = true;
        g.only_cuts = Some(vec![]);
        self.twins.push(g);
    }
    /// disjunctive goal: at least one of the relations holds
    pub fn prove_any(&mut self, name: impl Into<String>, mut rels: Vec<(T, Rel, T)>) {
        let (l, rel, r) = rels.remove(0);
        let mut g = goal(name, l, rel, r);
        g.alts = rels;
        self.goals.push(g);
    }
    pub fn prove_scaled(&mut self, name: impl Into<String>, l: T, rel: Rel, r: T, scale: T) {
        let mut g = goal(name, l, rel, r);
        g.scale = Some(scale);
        self.goals.push(g);
    }
    /// goal proved with only the cuts whose names start with one of `prefixes`
    pub fn prove_cuts(&mut self, name: impl Into<String>, l: T, rel: Rel, r: T, prefixes: &[&str]) {
        let mut g = goal(name, l, rel, r);
        g.only_cuts = Some(prefixes.iter().map(|s| s.to_string()).collect());
        self.goals.push(g);
    }
    /// `l rel r` must fail somewhere: on at least one feasible path the solver must find a point
    /// (replayed natively) where it does not hold
    pub fn witness(&mut self, name: impl Into<String>, l: T, rel: Rel, r: T) {
        let mut g = goal(name, l, rel, r);
        g.pow = Some(PowEnc::Opaque);
        self.witnesses.push(g);
    }
    /// twin whose refutation only has to produce a point (pow nodes opaque; the point is replayed natively)
    pub fn twin_opaque(&mut self, name: impl Into<String>, l: T, rel: Rel, r: T) {
        let mut g = goal(name, l, rel, r);
        g.pow = Some(PowEnc::Opaque);
        self.twins.push(g);
    }
    pub fn twin_cuts(&mut self, name: impl Into<String>, l: T, rel: Rel, r: T, prefixes: &[&str]) {
        let mut g = goal(name, l, rel, r);
        g.only_cuts = Some(prefixes.iter().map(|s| s.to_string()).collect());
        self.twins.push(g);
    }
    pub fn twin(&mut self, name: impl Into<String>, l: T, rel: Rel, r: T) {
        self.twins.push(goal(name, l, rel, r));
    }
    /// from now on, goals are proved with `node` replaced by a fresh variable `name`
    /// satisfying `constraints` (each constraint is also proved, uncut, as its own goal)
    pub fn cut(&mut self, node: T, name: impl Into<String>, constraints: &[&str]) {
        if self.cut_from_goal.is_none() {
            self.cut_from_goal = Some(self.goals.len());
        }
        self.cuts.push(CutSpec { node, name: name.into(), constraints: constraints.iter().map(|s| s.to_string()).collect(), rels: vec![], local: false });
    }
    /// unconstrained abstraction used only by goals that name it via `prove_cuts`
    pub fn cut_local(&mut self, node: T, name: impl Into<String>) {
        self.cuts.push(CutSpec { node, name: name.into(), constraints: vec![], rels: vec![], local: true });
    }
    /// cut with relational constraints `lhs rel rhs` (terms built from the node itself and earlier
    /// terms); each relation is proved with the earlier cuts only, then assumed wherever the cut is used
    pub fn cut_rel(&mut self, node: T, name: impl Into<String>, rels: Vec<(T, Rel, T)>) {
        if self.cut_from_goal.is_none() {
            self.cut_from_goal = Some(self.goals.len());
        }
        let name: String = name.into();
        let rels = rels.into_iter().enumerate().map(|(k, (l, rel, r))| goal(format!("cut {} rel#{}", name, k), l, rel, r)).collect();
        self.cuts.push(CutSpec { node, name, constraints: vec![], rels, local: false });
    }
}

pub trait Harness: Sync {
    fn name(&self) -> String;
    fn mode(&self) -> Mode {
        Mode::Real
    }
    fn emit_opts(&self) -> EmitOpts {
        EmitOpts::default()
    }
    fn run<T: Scalar>(&self, out: &mut Outcome<T>);
    /// value for a validation / perturbation point
    fn sample_var(&self, _name: &str, u: f64) -> f64 {
        0.05 + 0.9 * u
    }
    /// relative tolerance of the native evaluation of goals
    fn tol(&self) -> f64 {
        1e-6
    }
    /// native comparisons allow an absolute slack of this factor times the largest magnitude among the run's goal
    /// values (rounding noise of quantities that are zero analytically); 0 for harnesses whose goals are pure
    /// products / powers, where the relative comparison is always meaningful
    fn noise_floor_factor(&self) -> f64 {
        0.0
    }
    /// is a feasible panic path a violation?
    fn panic_is_violation(&self) -> bool {
        true
    }
    /// panics that are another property's business (e.g. the sample_edge fall-through belongs to C06)
    fn ignore_panic(&self, _msg: &str) -> bool {
        false
    }
    fn timeout_s(&self, tier: Tier) -> u32 {
        match tier {
            Tier::Quick => 30,
            Tier::Thorough => 300,
        }
    }
    fn max_paths(&self) -> usize {
        20_000
    }
    /// uf logic needed
    fn uf(&self) -> bool {
        let o = self.emit_opts();
        o.transc == Transc::UF || o.pow == PowEnc::UF || o.fp
    }
    fn narrow_eval(&self, args: &[f64], _bits: u64) -> f64 {
        if args.len() == 3 {
            momtrop::gamma::inverse_gamma_lr_impl(args[0], args[1], 50, args[2])
        } else {
            f64::NAN
        }
    }
    /// pow encoding for cut justifications and definedness side conditions (Opaque: only y > 0 is known)
    fn pow_for_side_conditions(&self) -> PowEnc {
        PowEnc::Opaque
    }
    /// solver binary: z3 4.8.12 decides the real-arithmetic queries fastest, z3 5.1 (z3-new) the floating-point ones
    fn solver(&self, default: &str) -> String {
        if default != "z3" {
            return default.to_string();
        }
        if self.mode() == Mode::Fp { "z3-new".into() } else { "z3".into() }
    }
    /// rng-tag mode: from_f64(k*2^-53), 1 <= k <= rng_tags, becomes the variable x{k-1}
    fn rng_tags(&self) -> usize {
        0
    }
    /// number of validation points
    fn n_validate(&self) -> usize {
        4
    }
}

#[derive(Clone, Copy, PartialEq, Eq, Debug)]
pub enum Tier {
    Quick,
    Thorough,
}

#[derive(Serialize, Clone, Debug)]
pub struct Violation {
    pub goal: String,
    pub site: String,
    pub witness_class: String,
    pub desc: String,
    pub replay: Value,
}

#[derive(Serialize, Clone, Debug, Default)]
pub struct PartResult {
    pub part: String,
    pub functions_encoded: Vec<String>,
    pub bounds: Value,
    pub assumptions: Vec<String>,
    pub harnesses: usize,
    pub paths_syntactic: usize,
    pub paths_feasible: usize,
    pub paths_infeasible: usize,
    pub paths_panic_feasible: usize,
    pub paths_without_goals: usize,
    pub branch_decisions: usize,
    pub queries_total: usize,
    pub queries_distinct: usize,
    pub queries_unsat: usize,
    pub queries_sat: usize,
    pub queries_inconclusive: usize,
    pub goals_proved: usize,
    pub definedness_proved: usize,
    pub twins_expected: usize,
    pub twins_refuted: usize,
    pub witnesses_expected: usize,
    pub witnesses_found: usize,
    pub validations: usize,
    pub solver_s: f64,
    pub wall_s: f64,
    pub samples: Vec<Value>,
    pub violations: Vec<Violation>,
    /// soft: solver timeouts / unknown — reported, lower the bound, never counted as discharged
    pub inconclusive: Vec<String>,
    /// hard: vacuity, encoder validation failure, sat that does not replay, engine problems (exit 2)
    pub hard_failures: Vec<String>,
    pub notes: Vec<String>,
    pub second_opinion: Value,
}
impl PartResult {
    pub fn merge(&mut self, o: PartResult) {
        self.harnesses += o.harnesses;
        self.paths_syntactic += o.paths_syntactic;
        self.paths_feasible += o.paths_feasible;
        self.paths_infeasible += o.paths_infeasible;
        self.paths_panic_feasible += o.paths_panic_feasible;
        self.paths_without_goals += o.paths_without_goals;
        self.branch_decisions += o.branch_decisions;
        self.queries_total += o.queries_total;
        self.queries_distinct += o.queries_distinct;
        self.queries_unsat += o.queries_unsat;
        self.queries_sat += o.queries_sat;
        self.queries_inconclusive += o.queries_inconclusive;
        self.goals_proved += o.goals_proved;
        self.definedness_proved += o.definedness_proved;
        self.twins_expected += o.twins_expected;
        self.twins_refuted += o.twins_refuted;
        self.witnesses_expected += o.witnesses_expected;
        self.witnesses_found += o.witnesses_found;
        self.validations += o.validations;
        self.solver_s += o.solver_s;
        self.wall_s += o.wall_s;
        for s in o.samples {
            if self.samples.len() < 12 {
                self.samples.push(s);
            }
        }
        // second opinion: accumulate counts
        {
            let g = |v: &Value, k: &str| v.get(k).and_then(|x| x.as_u64()).unwrap_or(0);
            if !o.second_opinion.is_null() {
                let a = &self.second_opinion;
                self.second_opinion = json!({
                    "rechecked": g(a, "rechecked") + g(&o.second_opinion, "rechecked"),
                    "agree": g(a, "agree") + g(&o.second_opinion, "agree"),
                    "undecided_by_other": g(a, "undecided_by_other") + g(&o.second_opinion, "undecided_by_other"),
                    "solvers": "z3 4.8.12 and z3 5.1.0 (z3-new); primary: z3 for real arithmetic, z3-new for floating point",
                });
            }
        }
        self.violations.extend(o.violations);
        self.inconclusive.extend(o.inconclusive);
        self.hard_failures.extend(o.hard_failures);
        for n in o.notes {
            if !self.notes.contains(&n) {
                self.notes.push(n);
            }
        }
    }
}

fn rel_smt(rel: Rel, a: &str, b: &str, fp: bool) -> String {
    if fp {
        match rel {
            Rel::Eq => format!("(= {} {})", a, b),
            Rel::Le => format!("(fp.leq {} {})", a, b),
            Rel::Lt => format!("(fp.lt {} {})", a, b),
            Rel::Ne => format!("(not (fp.eq {} {}))", a, b),
        }
    } else {
        match rel {
            Rel::Eq => format!("(= {} {})", a, b),
            Rel::Le => format!("(<= {} {})", a, b),
            Rel::Lt => format!("(< {} {})", a, b),
            Rel::Ne => format!("(not (= {} {}))", a, b),
        }
    }
}

fn leaf_names_all(nodes: &[Node], roots: &[u32]) -> BTreeSet<String> {
    vars_in_cone(nodes, roots)
}

fn leaf_names(nodes: &[Node], root: u32, cuts: &HashMap<u32, Cut>) -> BTreeSet<String> {
    cone(nodes, &[root], cuts)
        .into_iter()
        .filter_map(|i| {
            if let Some(c) = cuts.get(&i) {
                return Some(c.name.clone());
            }
            match &nodes[i as usize] {
                Node::Var(n) => Some(n.clone()),
                // opaque transcendental nodes act as free variables of their own
                _ => None,
            }
        })
        .collect()
}

struct Cond {
    /// a disequality (Eq atom decided false): never needed to prune a path
    diseq: bool,
    nodes: [u32; 2],
    smt: Box<dyn Fn(&Emitted) -> String>,
    vars: BTreeSet<String>,
    max_node: u32,
}

enum QKind {
    Feasible { path: usize, panic: Option<String> },
    Goal { path: usize, name: String },
    CutJustify { path: usize, name: String },
    Defined { path: usize, desc: String },
    Twin { path: usize, name: String },
    Witness { path: usize, name: String },
}

/// constant goals decided without the solver: (path, goal name, holds)
struct ConstGoal {
    path: usize,
    name: String,
    holds: bool,
    twin: bool,
}

pub struct RunCfg {
    pub tier: Tier,
    pub seed: u64,
    pub solver: String,
}

fn lcg(s: &mut u64) -> f64 {
    *s = s.wrapping_mul(6364136223846793005).wrapping_add(1442695040888963407);
    ((*s >> 11) as f64) / ((1u64 << 53) as f64)
}

/// native run of the harness at a model; variables missing from the model (the query was
/// emitted with cuts) are filled with `sample_var` values drawn from `fill`.
/// Returns the outcome recorded so far and the panic message, if any.
pub fn native_run<H: Harness>(h: &H, model: &BTreeMap<String, f64>, fill: &mut u64) -> (Outcome<f64>, Option<String>, BTreeMap<String, f64>) {
    let mut m: HashMap<String, f64> = model.iter().map(|(k, v)| (k.clone(), *v)).collect();
    for _ in 0..4 {
        set_model(&m);
        MISSING.with(|c| c.borrow_mut().clear());
        let out = RefCell::new(Outcome::<f64>::new());
        let r = std::panic::catch_unwind(std::panic::AssertUnwindSafe(|| h.run::<f64>(&mut out.borrow_mut())));
        let missing: Vec<String> = MISSING.with(|c| std::mem::take(&mut *c.borrow_mut()));
        if !missing.is_empty() {
            for v in missing {
                let val = h.sample_var(&v, lcg(fill));
                m.insert(v, val);
            }
            continue;
        }
        let full: BTreeMap<String, f64> = m.iter().map(|(k, v)| (k.clone(), *v)).collect();
        // RefCell may still be mutably borrowed after a panic: recover the value regardless
        let o = match out.try_borrow_mut() {
            Ok(mut b) => std::mem::replace(&mut *b, Outcome::new()),
            Err(_) => Outcome::new(),
        };
        return (o, r.err().map(panic_msg), full);
    }
    (Outcome::new(), Some("SYMX-INTERNAL: could not complete the model".into()), BTreeMap::new())
}

/// slack for native comparisons: 1e-9 of the largest magnitude appearing in the run's goals (0 for exact properties)
fn noise_floor(o: &Outcome<f64>, tol: f64, factor: f64) -> f64 {
    if tol == 0.0 || factor == 0.0 {
        return 0.0;
    }
    let mut m = 0.0f64;
    for g in o.goals.iter().chain(o.twins.iter()) {
        for v in [g.lhs, g.rhs] {
            if v.is_finite() {
                m = m.max(v.abs());
            }
        }
    }
    factor * m
}

fn assumes_hold(o: &Outcome<f64>) -> bool {
    o.assumes.iter().all(|g| match g.rel {
        Rel::Eq => g.lhs == g.rhs,
        Rel::Le => g.lhs <= g.rhs,
        Rel::Lt => g.lhs < g.rhs,
        Rel::Ne => g.lhs != g.rhs,
    })
}

/// try to reproduce the failure of goal `name` natively at `model` (then at perturbations / other fills)
pub fn replay_goal<H: Harness>(h: &H, name: &str, model: &BTreeMap<String, f64>, seed: u64, twin: bool) -> Option<(BTreeMap<String, f64>, String)> {
    let mut s = seed ^ 0x9e3779b97f4a7c15;
    for attempt in 0..65 {
        let mut m = model.clone();
        if attempt > 0 {
            let eps = 10f64.powi(-(3 + (attempt % 8) as i32));
            for (_, v) in m.iter_mut() {
                *v *= 1.0 + eps * (2.0 * lcg(&mut s) - 1.0);
            }
        }
        let (o, panic, full) = native_run(h, &m, &mut s);
        if let Some(msg) = &panic {
            if msg.contains("SYMX-") {
                return None;
            }
        }
        if !assumes_hold(&o) {
            continue;
        }
        match panic {
            Some(msg) => {
                if name == "no-panic" && !h.ignore_panic(&msg) {
                    return Some((full, format!("panic: {}", msg.chars().take(200).collect::<String>())));
                }
            }
            None => {
                let gs = if twin { &o.twins } else { &o.goals };
                let floor = noise_floor(&o, h.tol(), h.noise_floor_factor());
                for g in gs.iter().filter(|g| g.name == name) {
                    if let Some(d) = native_violation_floor(g, h.tol(), floor) {
                        return Some((full, d));
                    }
                }
                // relational / simple constraints of an abstraction (cut) are goals as well
                for c in &o.cuts {
                    for g in c.rels.iter().filter(|g| g.name == name) {
                        if let Some(d) = native_violation(g, h.tol()) {
                            return Some((full, d));
                        }
                    }
                    for con in &c.constraints {
                        if format!("cut {} {}", c.name, con) == name {
                            let v = c.node;
                            let cc = con.replace(' ', "");
                            let bad = match cc.as_str() {
                                "(>{}0.0)" => !(v > 0.0),
                                "(>={}0.0)" => !(v >= 0.0),
                                "(<={}1.0)" => !(v <= 1.0),
                                "(<{}1.0)" => !(v < 1.0),
                                _ => false,
                            };
                            if bad {
                                return Some((full, format!("{}: value {:e}", name, v)));
                            }
                        }
                    }
                }
            }
        }
    }
    None
}

/// does the native run at (a completion of) `model` violate witness relation `name`?
fn replay_witness<H: Harness>(h: &H, name: &str, model: &BTreeMap<String, f64>, seed: u64) -> bool {
    let mut s = seed ^ 0x51ed27;
    for attempt in 0..16 {
        let mut m = model.clone();
        if attempt > 0 {
            for (_, v) in m.iter_mut() {
                *v *= 1.0 + 1e-4 * (2.0 * lcg(&mut s) - 1.0);
            }
        }
        let (o, panic, _) = native_run(h, &m, &mut s);
        if panic.is_some() || !assumes_hold(&o) {
            continue;
        }
        for g in o.witnesses.iter().filter(|g| g.name == name) {
            if native_violation(g, 1e-9).is_some() {
                return true;
            }
        }
    }
    false
}

/// native confirmation that witness relation `name` is never violated (64 random points)
fn confirm_no_witness<H: Harness>(h: &H, name: &str, seed: u64) -> bool {
    let mut s = seed ^ 0xabcdef;
    let mut tried = 0;
    for _ in 0..256 {
        let (o, panic, _) = native_run(h, &BTreeMap::new(), &mut s);
        if panic.is_some() || !assumes_hold(&o) {
            continue;
        }
        tried += 1;
        for g in o.witnesses.iter().filter(|g| g.name == name) {
            if native_violation(g, 1e-9).is_some() {
                return false;
            }
        }
        if tried >= 64 {
            break;
        }
    }
    tried > 0
}

/// run many harnesses on a few threads (each harness's queries still go through the shared pool of solver processes)
pub fn check_harnesses<H: Harness>(hs: &[H], cfg: &RunCfg) -> PartResult {
    let next = std::sync::atomic::AtomicUsize::new(0);
    let out: std::sync::Mutex<Vec<(usize, PartResult)>> = std::sync::Mutex::new(vec![]);
    let nthreads = std::env::var("SYMX_HARNESS_THREADS").ok().and_then(|s| s.parse().ok()).unwrap_or(8usize).min(hs.len().max(1));
    std::thread::scope(|sc| {
        for _ in 0..nthreads {
            sc.spawn(|| loop {
                let k = next.fetch_add(1, std::sync::atomic::Ordering::SeqCst);
                if k >= hs.len() {
                    break;
                }
                let r = check_harness(&hs[k], cfg);
                out.lock().unwrap().push((k, r));
            });
        }
    });
    let mut v = out.into_inner().unwrap();
    v.sort_by_key(|x| x.0);
    let mut total = PartResult::default();
    for (_, r) in v {
        total.merge(r);
    }
    total
}

pub fn check_harness<H: Harness>(h: &H, cfg: &RunCfg) -> PartResult {
    let t0 = std::time::Instant::now();
    let mut res = PartResult { part: h.name(), harnesses: 1, ..Default::default() };
    if let Ok(only) = std::env::var("SYMX_ONLY") {
        if !h.name().contains(&only) {
            res.harnesses = 0;
            return res;
        }
    }
    let fp = h.mode() == Mode::Fp;
    let ecfg = ExploreCfg { mode: h.mode(), max_paths: h.max_paths(), rng_tags: h.rng_tags(), ..Default::default() };
    let (paths, complete) = explore(ecfg, || {
        let mut o = Outcome::new();
        // the outcome must survive a panic: keep it in the cell while running
        let r = std::panic::catch_unwind(std::panic::AssertUnwindSafe(|| h.run::<Sym>(&mut o)));
        match r {
            Ok(()) => (o, None),
            Err(e) => (o, Some(panic_msg(e))),
        }
    });
    res.paths_syntactic = paths.len();
    if !complete {
        res.hard_failures.push(format!("{}: path exploration stopped at {} paths", h.name(), paths.len()));
    }
    let header = logic_header(fp, h.uf());
    let timeout = h.timeout_s(cfg.tier);
    let mut queries: Vec<Query> = vec![];
    let mut kinds: Vec<QKind> = vec![];
    let mut all_vars: BTreeSet<String> = BTreeSet::new();
    let mut path_groups: HashMap<usize, usize> = HashMap::new();
    let const_goals: RefCell<Vec<ConstGoal>> = RefCell::new(vec![]);
    // observations on the term DAG of a path (path index, description, decisions): violations if the path is feasible
    let mut structural: Vec<(usize, String, Vec<bool>)> = vec![];
    // witness relations whose two sides are the same term on a path (cannot be refuted there)
    let witness_same: RefCell<Vec<(usize, String)>> = RefCell::new(vec![]);

    for (pi, p) in paths.iter().enumerate() {
        res.branch_decisions += p.taken.len();
        let (o, panic) = match &p.result {
            Ok((o, panic)) => (o, panic.clone()),
            Err(m) => {
                res.hard_failures.push(format!("{}: harness itself panicked: {}", h.name(), m));
                continue;
            }
        };
        if let Some(m) = &panic {
            if m.contains("SYMX-") {
                res.hard_failures.push(format!("{}: {}", h.name(), m));
                continue;
            }
        }
        for s in &o.structural {
            structural.push((pi, s.clone(), p.taken.iter().map(|t| t.1).collect()));
        }
        for n in &o.notes {
            if !res.notes.contains(n) {
                res.notes.push(n.clone());
            }
        }
        if o.goals.is_empty() && o.twins.is_empty() && o.witnesses.is_empty() && panic.is_none() && o.cuts.is_empty() && o.structural.is_empty() {
            // nothing is claimed on this path (e.g. an error return that another property covers)
            res.paths_without_goals += 1;
            continue;
        }
        let nodes = &p.nodes;
        let base_opts = h.emit_opts();
        // cut maps: for goal index >= cut_from_goal, all cuts apply
        let mut cutmap: HashMap<u32, Cut> = HashMap::new();
        let mut cutmap_all: HashMap<u32, Cut> = HashMap::new();
        for c in &o.cuts {
            // a constant needs no abstraction (and, terms being hash-consed, cutting it would
            // replace every occurrence of that constant)
            if matches!(nodes[c.node.0 as usize], Node::Const(_) | Node::CF(_)) {
                continue;
            }
            cutmap_all.insert(c.node.0, Cut { name: c.name.clone(), constraints: c.constraints.clone() });
            if !c.local {
                cutmap.insert(c.node.0, Cut { name: c.name.clone(), constraints: c.constraints.clone() });
            }
        }
        let nocuts: HashMap<u32, Cut> = HashMap::new();

        // conditions = assumes + path atoms
        let mk_conds = |cuts: &HashMap<u32, Cut>| -> Vec<Cond> {
            let mut v = vec![];
            for g in &o.assumes {
                let (l, r, rel) = (g.lhs.0, g.rhs.0, g.rel);
                let mut vars = leaf_names(nodes, l, cuts);
                vars.extend(leaf_names(nodes, r, cuts));
                v.push(Cond { diseq: false, nodes: [l, r], smt: Box::new(move |e: &Emitted| rel_smt(rel, e.n(l), e.n(r), fp)), vars, max_node: l.max(r) });
            }
            for c in &o.cuts {
                if !cuts.contains_key(&c.node.0) {
                    continue;
                }
                for g in &c.rels {
                    let (l, r, rel) = (g.lhs.0, g.rhs.0, g.rel);
                    let mut vars = leaf_names(nodes, l, cuts);
                    vars.extend(leaf_names(nodes, r, cuts));
                    v.push(Cond { diseq: false, nodes: [l, r], smt: Box::new(move |e: &Emitted| rel_smt(rel, e.n(l), e.n(r), fp)), vars, max_node: c.node.0 });
                }
            }
            for (a, val) in &p.taken {
                let [l, r] = a.nodes();
                let mut vars = leaf_names(nodes, l, cuts);
                vars.extend(leaf_names(nodes, r, cuts));
                let (a2, val2) = (a.clone(), *val);
                v.push(Cond { diseq: matches!(a, Atom::Eq(..)) && !*val && !fp, nodes: [l, r], smt: Box::new(move |e: &Emitted| atom_smt(e, &a2, val2, fp)), vars, max_node: l.max(r) });
            }
            v
        };
        // builds one query: goal roots + relevant conditions (optionally only those below `below`)
        let build = |roots: &[u32], cuts: &HashMap<u32, Cut>, below: Option<u32>, neg_goal: Option<&dyn Fn(&Emitted) -> String>, all_conds: bool, pow: Option<PowEnc>, loglin: bool| -> (String, Vec<String>, Vec<(String, String, u32)>) {
            let conds = mk_conds(cuts);
            let mut vars: BTreeSet<String> = BTreeSet::new();
            for &r in roots {
                vars.extend(leaf_names(nodes, r, cuts));
            }
            let mut used = vec![false; conds.len()];
            loop {
                let mut changed = false;
                for (k, c) in conds.iter().enumerate() {
                    if used[k] {
                        continue;
                    }
                    if let Some(b) = below {
                        if c.max_node >= b {
                            continue;
                        }
                    }
                    if all_conds || c.vars.iter().any(|v| vars.contains(v)) {
                        used[k] = true;
                        vars.extend(c.vars.iter().cloned());
                        changed = true;
                    }
                }
                if !changed {
                    break;
                }
            }
            let mut all_roots: Vec<u32> = vec![];
            for (k, c) in conds.iter().enumerate() {
                if used[k] {
                    all_roots.extend(c.nodes);
                }
            }
            all_roots.extend(roots);
            let mut opts = base_opts.clone();
            opts.cuts = cuts.clone();
            if let Some(pw) = pow {
                opts.pow = pw;
            }
            if loglin {
                let e = emit_loglin(nodes, &all_roots, cuts, "l");
                // conditions with a side that has no logarithm (zero, negative constants) are dropped
                let asserts: Vec<String> = conds
                    .iter()
                    .enumerate()
                    .filter(|(k, c)| used[*k] && e.names.contains_key(&c.nodes[0]) && e.names.contains_key(&c.nodes[1]))
                    .map(|(_, c)| (c.smt)(&e))
                    .collect();
                let ok = roots.iter().all(|r| e.names.contains_key(r));
                if !ok {
                    panic!("SYMX-INTERNAL: log-linear goal with a non-positive constant side");
                }
                let ng = neg_goal.map(|f| f(&e));
                let text = build_query("(set-logic QF_LRA)\n", &e.text, &asserts, ng.as_deref(), &[]);
                return (text, vec![], vec![]);
            }
            let e = emit(nodes, &all_roots, &opts);
            let asserts: Vec<String> = conds.iter().enumerate().filter(|(k, _)| used[*k]).map(|(_, c)| (c.smt)(&e)).collect();
            let ng = neg_goal.map(|f| f(&e));
            let mv: Vec<String> = e.vars.iter().cloned().collect();
            let text = build_query(&header, &e.text, &asserts, ng.as_deref(), &mv);
            let obl = e
                .obligations
                .iter()
                .map(|(d, f)| {
                    let id: u32 = d.rsplit('n').next().and_then(|s| s.parse().ok()).unwrap_or(0);
                    (d.clone(), f.clone(), id)
                })
                .collect();
            (text, mv, obl)
        };

        // 1. feasibility of the path: the conditions split into groups that share no variable;
        //    each group is one query (cuts applied, opaque pow: an over-approximation, so `unsat`
        //    soundly prunes the path and `sat` only means "treated as feasible").
        {
            // disequalities cannot make a real-arithmetic path infeasible in any way that matters for
            // pruning; leaving them out only prunes less
            let conds: Vec<Cond> = mk_conds(&cutmap).into_iter().filter(|c| !c.diseq).collect();
            let mut comp: Vec<usize> = (0..conds.len()).collect();
            fn root(c: &mut Vec<usize>, i: usize) -> usize {
                let mut r = i;
                while c[r] != r {
                    r = c[r];
                }
                c[i] = r;
                r
            }
            let mut owner: HashMap<String, usize> = HashMap::new();
            for (k, c) in conds.iter().enumerate() {
                for v in &c.vars {
                    match owner.get(v) {
                        Some(&o) => {
                            let (a, b) = (root(&mut comp, o), root(&mut comp, k));
                            comp[a] = b;
                        }
                        None => {
                            owner.insert(v.clone(), k);
                        }
                    }
                }
            }
            let mut groups: BTreeMap<usize, Vec<usize>> = BTreeMap::new();
            for k in 0..conds.len() {
                let r = root(&mut comp, k);
                groups.entry(r).or_default().push(k);
            }
            let mut n_groups = 0;
            for (_, members) in groups {
                let mut roots: Vec<u32> = vec![];
                for &k in &members {
                    roots.extend(conds[k].nodes);
                }
                let mut opts = base_opts.clone();
                opts.cuts = cutmap.clone();
                opts.pow = h.pow_for_side_conditions();
                opts.pow_le_one = true;
                let e = emit(nodes, &roots, &opts);
                let asserts: Vec<String> = members.iter().map(|&k| (conds[k].smt)(&e)).collect();
                let mv: Vec<String> = e.vars.iter().cloned().collect();
                all_vars.extend(leaf_names_all(nodes, &roots));
                let text = build_query(&header, &e.text, &asserts, None, &mv);
                queries.push(Query { label: format!("{} path{} feasible", h.name(), pi), text, timeout_s: if fp { timeout } else { timeout.min(if cfg.tier == Tier::Quick { 3 } else { 20 }) }, model_vars: mv, expect_sat: None });
                kinds.push(QKind::Feasible { path: pi, panic: panic.clone() });
                n_groups += 1;
            }
            path_groups.insert(pi, n_groups);
        }
        if panic.is_some() {
            continue;
        }

        // 2. goals, twins, cut justifications, definedness
        let mut defined_seen: BTreeSet<u32> = BTreeSet::new();
        let mut emit_goal = |g: &Goal<Sym>, gi: Option<usize>, kind: u8, queries: &mut Vec<Query>, kinds: &mut Vec<QKind>| {
            let use_cuts = match (gi, o.cut_from_goal) {
                (Some(i), Some(c)) => i >= c,
                (None, Some(_)) => kind == 1, // twins use cuts when there are any
                _ => false,
            };
            let filtered: HashMap<u32, Cut>;
            let cuts = if let Some(only) = &g.only_cuts {
                filtered = cutmap_all.iter().filter(|(_, c)| only.iter().any(|p| c.name.starts_with(p.as_str()))).map(|(k, v)| (*k, v.clone())).collect();
                &filtered
            } else if use_cuts {
                &cutmap
            } else {
                &nocuts
            };
            let (l, r, rel) = (g.lhs.0, g.rhs.0, g.rel);
            let alts: Vec<(u32, Rel, u32)> = g.alts.iter().map(|(a, rl, b)| (a.0, *rl, b.0)).collect();
            let alts2 = alts.clone();
            let ng = move |e: &Emitted| {
                if alts2.is_empty() {
                    rel_smt(rel, e.n(l), e.n(r), fp)
                } else {
                    let mut parts = vec![rel_smt(rel, e.n(l), e.n(r), fp)];
                    for (a, rl, b) in &alts2 {
                        parts.push(rel_smt(*rl, e.n(*a), e.n(*b), fp));
                    }
                    format!("(or {})", parts.join(" "))
                }
            };
            let mut goal_roots: Vec<u32> = vec![l, r];
            for (a, _, b) in &alts {
                goal_roots.push(*a);
                goal_roots.push(*b);
            }
            if l == r && kind != 3 && alts.is_empty() {
                // hash-consed terms: the two sides are the same term
                const_goals.borrow_mut().push(ConstGoal { path: pi, name: g.name.clone(), holds: matches!(rel, Rel::Eq | Rel::Le), twin: kind == 1 });
                return vec![];
            }
            if l == r && kind == 3 {
                witness_same.borrow_mut().push((pi, g.name.clone()));
                return vec![];
            }
            let no_vars = leaf_names(nodes, l, cuts).is_empty() && leaf_names(nodes, r, cuts).is_empty();
            if no_vars && kind != 3 && alts.is_empty() {
                // both sides constant: decide exactly, no query (a false constant goal means
                // "this path must be infeasible" and is settled by the feasibility verdict)
                let cv = |i: u32| match &nodes[i as usize] {
                    Node::Const(c) => Some(num::ToPrimitive::to_f64(c).unwrap()),
                    Node::CF(b) => Some(f64::from_bits(*b)),
                    _ => None,
                };
                if let (Some(a), Some(b)) = (cv(l), cv(r)) {
                    let holds = match rel {
                        Rel::Eq => a == b,
                        Rel::Le => a <= b,
                        Rel::Lt => a < b,
                        Rel::Ne => a != b,
                    };
                    const_goals.borrow_mut().push(ConstGoal { path: pi, name: g.name.clone(), holds, twin: kind == 1 });
                    return vec![];
                }
            }
            let (text, mv, obl) = build(&goal_roots, cuts, None, Some(&ng), no_vars, g.pow, g.loglin);
            queries.push(Query { label: format!("{} path{} {}", h.name(), pi, g.name), text, timeout_s: timeout, model_vars: mv, expect_sat: Some(kind == 1 || kind == 3) });
            kinds.push(match kind {
                0 => QKind::Goal { path: pi, name: g.name.clone() },
                1 => QKind::Twin { path: pi, name: g.name.clone() },
                3 => QKind::Witness { path: pi, name: g.name.clone() },
                _ => QKind::CutJustify { path: pi, name: g.name.clone() },
            });
            obl
        };
        let mut obligations: Vec<(String, String, u32, bool)> = vec![];
        for (gi, g) in o.goals.iter().enumerate() {
            let use_cuts = o.cut_from_goal.map_or(false, |c| gi >= c);
            for (d, f, id) in emit_goal(g, Some(gi), 0, &mut queries, &mut kinds) {
                obligations.push((d, f, id, use_cuts));
            }
        }
        for g in &o.twins {
            emit_goal(g, None, 1, &mut queries, &mut kinds);
        }
        for g in &o.witnesses {
            emit_goal(g, None, 3, &mut queries, &mut kinds);
        }
        // cut justification: each constraint of each cut, proved without cuts
        for c in &o.cuts {
            if !cutmap.contains_key(&c.node.0) {
                continue;
            }
            for (k, con) in c.constraints.iter().enumerate() {
                let node = c.node.0;
                let con2 = con.clone();
                let ng = move |e: &Emitted| con2.replace("{}", e.n(node));
                // cuts created earlier (smaller node index) may be used
                let lower: HashMap<u32, Cut> = cutmap.iter().filter(|(k, _)| **k < node).map(|(k, v)| (*k, v.clone())).collect();
                let (text, mv, obl) = build(&[node], &lower, None, Some(&ng), false, Some(h.pow_for_side_conditions()), false);
                queries.push(Query { label: format!("{} path{} cut {} #{}", h.name(), pi, c.name, k), text, timeout_s: timeout, model_vars: mv, expect_sat: Some(false) });
                kinds.push(QKind::CutJustify { path: pi, name: format!("cut {} {}", c.name, con) });
                for (d, f, id) in obl {
                    obligations.push((d, f, id, false));
                }
            }
        }
        // relational cut constraints: proved with the earlier cuts only
        for c in &o.cuts {
            if !cutmap.contains_key(&c.node.0) {
                continue;
            }
            let node = c.node.0;
            let lower: HashMap<u32, Cut> = cutmap.iter().filter(|(k, _)| **k < node).map(|(k, v)| (*k, v.clone())).collect();
            for g in &c.rels {
                let (l, r, rel) = (g.lhs.0, g.rhs.0, g.rel);
                let ng = move |e: &Emitted| rel_smt(rel, e.n(l), e.n(r), fp);
                let (text, mv, obl) = build(&[l, r], &lower, None, Some(&ng), false, None, false);
                queries.push(Query { label: format!("{} path{} {}", h.name(), pi, g.name), text, timeout_s: timeout, model_vars: mv, expect_sat: Some(false) });
                kinds.push(QKind::CutJustify { path: pi, name: g.name.clone() });
                for (d, f, id) in obl {
                    obligations.push((d, f, id, false));
                }
            }
        }
        // definedness: prove each partial operation's side condition from what precedes it
        if !fp {
            for (d, _f, id, _cut) in obligations {
                if !defined_seen.insert(id) {
                    continue;
                }
                let arg = match &nodes[id as usize] {
                    Node::Div(_, b) => *b,
                    Node::Sqrt(a) | Node::Pow(a, _) | Node::Ln(a) => *a,
                    _ => continue,
                };
                // constants: decide syntactically
                if let Node::Const(c) = &nodes[arg as usize] {
                    use num::Zero;
                    let ok = match &nodes[id as usize] {
                        Node::Div(..) => !c.is_zero(),
                        Node::Sqrt(_) => *c >= num::BigRational::zero(),
                        _ => *c > num::BigRational::zero(),
                    };
                    if ok {
                        continue;
                    }
                }
                let kindc = match &nodes[id as usize] {
                    Node::Div(..) => 0u8,
                    Node::Sqrt(_) => 1,
                    _ => 2,
                };
                let ng = move |e: &Emitted| match kindc {
                    0 => format!("(not (= {} 0.0))", e.n(arg)),
                    1 => format!("(>= {} 0.0)", e.n(arg)),
                    _ => format!("(> {} 0.0)", e.n(arg)),
                };
                let lower: HashMap<u32, Cut> = cutmap.iter().filter(|(k, _)| **k < id).map(|(k, v)| (*k, v.clone())).collect();
                let (text, mv, _) = build(&[arg], &lower, Some(id), Some(&ng), false, Some(h.pow_for_side_conditions()), false);
                queries.push(Query { label: format!("{} path{} defined {}", h.name(), pi, d), text, timeout_s: timeout, model_vars: mv, expect_sat: Some(false) });
                kinds.push(QKind::Defined { path: pi, desc: d });
            }
        }
    }

    // ---- discharge
    // stage 1: path feasibility; stage 2: everything else, for the paths not pruned
    let stage1: Vec<usize> = (0..queries.len()).filter(|k| matches!(kinds[*k], QKind::Feasible { .. })).collect();
    let q1: Vec<Query> = stage1.iter().map(|k| queries[*k].clone()).collect();
    let solver = h.solver(&cfg.solver);
    let (v1, st1) = run_queries(&solver, &q1);
    let mut pruned: BTreeSet<usize> = BTreeSet::new();
    for (j, k) in stage1.iter().enumerate() {
        if let (QKind::Feasible { path, .. }, Answer::Unsat) = (&kinds[*k], &v1[j].answer) {
            pruned.insert(*path);
        }
    }
    let path_of = |k: usize| match &kinds[k] {
        QKind::Feasible { path, .. } | QKind::Goal { path, .. } | QKind::CutJustify { path, .. } | QKind::Defined { path, .. } | QKind::Twin { path, .. } | QKind::Witness { path, .. } => *path,
    };
    // native pre-pass: the points the solver produced for the feasible paths are run through the real code
    // natively; goals that already fail there are violations (no need to ask the solver about them again)
    // goal name -> (path whose point showed the failure, completed point, description, gross failure?)
    let mut failed_natively: BTreeMap<String, (usize, BTreeMap<String, f64>, String, bool)> = BTreeMap::new();
    {
        let mut stage1_models0: HashMap<usize, BTreeMap<String, f64>> = HashMap::new();
        for (j, k) in stage1.iter().enumerate() {
            if let (QKind::Feasible { path, .. }, Answer::Sat(m)) = (&kinds[*k], &v1[j].answer) {
                stage1_models0.entry(*path).or_default().extend(m.clone());
            }
        }
        // harnesses without path conditions have no solver-produced point: a few seeded points instead
        if stage1_models0.is_empty() {
            for k in 0..8usize {
                stage1_models0.insert(usize::MAX - k, BTreeMap::new());
            }
        }
        let mut fill = cfg.seed ^ 0x77aa;
        let mut tried = 0;
        let mut paths_sorted: Vec<&usize> = stage1_models0.keys().collect();
        paths_sorted.sort();
        for p in paths_sorted {
            if pruned.contains(p) || tried >= 400 {
                continue;
            }
            tried += 1;
            let (o, panic, full) = native_run(h, &stage1_models0[p], &mut fill);
            if panic.is_some() || !assumes_hold(&o) {
                continue;
            }
            // "gross": far beyond anything rounding can produce, relative to the largest magnitude in the run
            let gross_floor = noise_floor(&o, 1.0, 1e-6);
            for g in &o.goals {
                if failed_natively.contains_key(&g.name) {
                    continue;
                }
                if let Some(d) = native_violation(g, h.tol()) {
                    // for bit-exact properties (tolerance 0) every native difference is a real one
                    let gross = h.tol() == 0.0 || native_violation_floor(g, h.tol().max(1e-6), gross_floor).is_some();
                    failed_natively.insert(g.name.clone(), (*p, full.clone(), format!("{} (at the point the solver produced for path {})", d, p), gross));
                }
            }
        }
    }
    // existential witnesses: first try the points the feasibility stage already produced
    let mut stage1_models: HashMap<usize, BTreeMap<String, f64>> = HashMap::new();
    for (j, k) in stage1.iter().enumerate() {
        if let (QKind::Feasible { path, .. }, Answer::Sat(m)) = (&kinds[*k], &v1[j].answer) {
            stage1_models.entry(*path).or_default().extend(m.clone());
        }
    }
    let mut witness_found_early: BTreeSet<String> = BTreeSet::new();
    for k in 0..queries.len() {
        if let QKind::Witness { path, name } = &kinds[k] {
            if pruned.contains(path) || witness_found_early.contains(name) {
                continue;
            }
            if let Some(m) = stage1_models.get(path) {
                if replay_witness(h, name, m, cfg.seed) {
                    witness_found_early.insert(name.clone());
                }
            }
        }
    }
    let stage2: Vec<usize> = (0..queries.len())
        .filter(|k| !matches!(kinds[*k], QKind::Feasible { .. }) && !pruned.contains(&path_of(*k)))
        .filter(|k| !matches!(&kinds[*k], QKind::Witness { name, .. } if witness_found_early.contains(name)))
        .collect();
    // a goal that failed natively is a *candidate*: one representative query (the path of the failing point if it
    // has one, else the first) is still put to the solver, which decides whether it is a violation or rounding noise
    let stage2: Vec<usize> = {
        let mut rep: BTreeMap<String, usize> = BTreeMap::new();
        for &k in &stage2 {
            if let QKind::Goal { path, name } = &kinds[k] {
                if let Some((p, ..)) = failed_natively.get(name) {
                    let e = rep.entry(name.clone()).or_insert(k);
                    if path == p {
                        *e = k;
                    }
                }
            }
        }
        stage2.into_iter().filter(|k| match &kinds[*k] {
            QKind::Goal { name, .. } if failed_natively.contains_key(name) => rep.get(name) == Some(k),
            _ => true,
        }).collect()
    };
    let q2: Vec<Query> = stage2.iter().map(|k| queries[*k].clone()).collect();
    let (v2, st2) = run_queries(&solver, &q2);
    // second opinion: a sample of the decided queries goes to the other z3 build; a disagreement voids the run
    {
        let other = if solver == "z3" { "z3-new" } else { "z3" };
        let cap = if cfg.tier == Tier::Quick { 3 } else { 40 };
        let mut picked: Vec<usize> = vec![];
        let mut seen_text: BTreeSet<u64> = BTreeSet::new();
        for (j, v) in v2.iter().enumerate() {
            if picked.len() >= cap {
                break;
            }
            // cheap ones only: the point is to cross-check the encoding, not to double the run time
            if v.dedup || v.secs > 2.0 || matches!(v.answer, Answer::Unknown(_)) {
                continue;
            }
            if (j as u64 + cfg.seed) % 7 != 0 {
                continue;
            }
            use std::hash::{Hash, Hasher};
            let mut hh = std::collections::hash_map::DefaultHasher::new();
            q2[j].text.hash(&mut hh);
            if seen_text.insert(hh.finish()) {
                picked.push(j);
            }
        }
        let q3: Vec<Query> = picked.iter().map(|j| { let mut q = q2[*j].clone(); q.timeout_s = q.timeout_s.min(if cfg.tier == Tier::Quick { 5 } else { 20 }); q }).collect();
        let (v3, st3) = run_queries(other, &q3);
        let mut agree = 0;
        let mut undecided = 0;
        for (k, j) in picked.iter().enumerate() {
            let a = matches!(v2[*j].answer, Answer::Unsat);
            match &v3[k].answer {
                Answer::Unknown(_) => undecided += 1,
                ans => {
                    if matches!(ans, Answer::Unsat) == a {
                        agree += 1;
                    } else {
                        res.hard_failures.push(format!("{}: solvers disagree ({} vs {}) on {}", h.name(), solver, other, q3[k].label));
                    }
                }
            }
        }
        res.second_opinion = json!({"primary": solver, "other": other, "rechecked": picked.len(), "agree": agree, "undecided_by_other": undecided, "solver_s": st3.solver_s});
    }
    let mut verdicts: Vec<Verdict> = (0..queries.len()).map(|_| Verdict { answer: Answer::Unknown("skipped: path infeasible".into()), secs: 0.0, dedup: true }).collect();
    for (j, k) in stage1.iter().enumerate() {
        verdicts[*k] = v1[j].clone();
    }
    for (j, k) in stage2.iter().enumerate() {
        verdicts[*k] = v2[j].clone();
    }
    res.queries_total = st1.total + st2.total;
    res.queries_distinct = st1.distinct + st2.distinct;
    res.solver_s = st1.solver_s + st2.solver_s;
    // a path is infeasible if one of its condition groups is unsat, feasible if all are sat
    let mut feasible: HashMap<usize, bool> = HashMap::new();
    let mut path_models: HashMap<usize, BTreeMap<String, f64>> = HashMap::new();
    let mut path_panic: HashMap<usize, String> = HashMap::new();
    {
        let mut sat_count: HashMap<usize, usize> = HashMap::new();
        for (k, v) in verdicts.iter().enumerate() {
            if let QKind::Feasible { path, panic } = &kinds[k] {
                if let Some(m) = panic {
                    path_panic.insert(*path, m.clone());
                }
                match &v.answer {
                    Answer::Sat(m) => {
                        *sat_count.entry(*path).or_insert(0) += 1;
                        path_models.entry(*path).or_default().extend(m.clone());
                    }
                    Answer::Unsat => {
                        feasible.insert(*path, false);
                    }
                    Answer::Unknown(r) => res.inconclusive.push(format!("{}: {}", queries[k].label, r)),
                }
            }
        }
        for (p, n) in &path_groups {
            if feasible.get(p) == Some(&false) {
                continue;
            }
            if sat_count.get(p).copied().unwrap_or(0) == *n {
                feasible.insert(*p, true);
            }
        }
        // paths without any condition are trivially feasible
        for p in 0..paths.len() {
            if path_groups.get(&p) == Some(&0) {
                feasible.insert(p, true);
            }
        }
    }
    for p in 0..paths.len() {
        match feasible.get(&p) {
            Some(true) => res.paths_feasible += 1,
            Some(false) => res.paths_infeasible += 1,
            None => {}
        }
    }
    // feasible panic paths
    for (p, msg) in &path_panic {
        if feasible.get(p) != Some(&true) {
            continue;
        }
        res.paths_panic_feasible += 1;
        if h.panic_is_violation() && !h.ignore_panic(msg) {
            let m = path_models.get(p).cloned().unwrap_or_default();
            match replay_goal(h, "no-panic", &m, cfg.seed, false) {
                Some((m2, d)) => res.violations.push(Violation {
                    goal: "no-panic".into(),
                    site: h.name(),
                    witness_class: classify_panic(msg),
                    desc: d,
                    replay: json!({"harness": h.name(), "goal": "no-panic", "model": m2}),
                }),
                None => res.hard_failures.push(format!("{} path{}: feasible panic path ({}) did not reproduce natively", h.name(), p, msg.chars().take(80).collect::<String>())),
            }
        }
    }
    {
        let mut seen: BTreeSet<String> = BTreeSet::new();
        for (p, desc, decisions) in &structural {
            if feasible.get(p) == Some(&false) || !seen.insert(desc.clone()) {
                continue;
            }
            // re-observe on the real code: run the same path again and look for the same observation
            let again = run_once(ExploreCfg { mode: h.mode(), rng_tags: h.rng_tags(), ..Default::default() }, decisions, &|| {
                let mut o = Outcome::<Sym>::new();
                let _ = std::panic::catch_unwind(std::panic::AssertUnwindSafe(|| h.run::<Sym>(&mut o)));
                o.structural
            });
            let reproduced = again.result.map(|v| v.contains(desc)).unwrap_or(false);
            if reproduced {
                res.violations.push(Violation {
                    goal: "structural".into(),
                    site: h.name(),
                    witness_class: "structural".into(),
                    desc: desc.clone(),
                    replay: json!({"harness": h.name(), "goal": "structural", "decisions": decisions, "path_feasible": format!("{:?}", feasible.get(p)), "model": path_models.get(p)}),
                });
            } else {
                res.hard_failures.push(format!("{} path{}: observation '{}' did not reproduce", h.name(), p, desc));
            }
        }
    }
    for cg in const_goals.borrow().iter() {
        if feasible.get(&cg.path) == Some(&false) {
            continue;
        }
        if cg.twin {
            res.twins_expected += 1;
            if !cg.holds {
                res.twins_refuted += 1;
            } else {
                res.hard_failures.push(format!("{} path{} {}: VACUITY — constant twin holds", h.name(), cg.path, cg.name));
            }
            continue;
        }
        if cg.holds {
            res.goals_proved += 1;
            continue;
        }
        // constant-false goal on a path that was not pruned
        let m = path_models.get(&cg.path).cloned().unwrap_or_default();
        match replay_goal(h, &cg.name, &m, cfg.seed, false) {
            Some((m2, d)) => res.violations.push(Violation {
                goal: cg.name.clone(),
                site: h.name(),
                witness_class: "goal-fails".into(),
                desc: d,
                replay: json!({"harness": h.name(), "goal": cg.name, "model": m2}),
            }),
            None => {
                if feasible.get(&cg.path) == Some(&true) {
                    res.hard_failures.push(format!("{} path{} {}: path not pruned (over-approximate feasibility) and the failure did not reproduce natively", h.name(), cg.path, cg.name))
                } else {
                    res.inconclusive.push(format!("{} path{} {}: feasibility of the path undecided", h.name(), cg.path, cg.name))
                }
            }
        }
    }
    if std::env::var("SYMX_PROFILE").is_ok() {
        let mut by: BTreeMap<&str, (usize, f64, f64)> = BTreeMap::new();
        for (k, v) in verdicts.iter().enumerate() {
            if v.dedup {
                continue;
            }
            let kind = match &kinds[k] {
                QKind::Feasible { .. } => "feasible",
                QKind::Goal { .. } => "goal",
                QKind::CutJustify { .. } => "cut",
                QKind::Defined { .. } => "defined",
                QKind::Twin { .. } => "twin",
                QKind::Witness { .. } => "witness",
            };
            let e = by.entry(kind).or_insert((0, 0.0, 0.0));
            e.0 += 1;
            e.1 += v.secs;
            e.2 = e.2.max(v.secs);
        }
        eprintln!("PROFILE {} {:?}", h.name(), by);
        for (k, v) in verdicts.iter().enumerate() {
            if let Answer::Unknown(r) = &v.answer {
                if !v.dedup {
                    eprintln!("UNKNOWN {} feasible={:?} {}", queries[k].label, match &kinds[k] { QKind::Feasible { path, .. } | QKind::Goal { path, .. } | QKind::CutJustify { path, .. } | QKind::Defined { path, .. } | QKind::Twin { path, .. } | QKind::Witness { path, .. } => feasible.get(path) }, r);
                }
            }
        }
    }
    let mut first_model: Option<BTreeMap<String, f64>> = None;
    // witness name -> (refuted somewhere, #paths where it provably holds, #unknown)
    let mut witness_state: BTreeMap<String, (bool, usize, usize)> = BTreeMap::new();
    for name in &witness_found_early {
        witness_state.insert(name.clone(), (true, 0, 0));
    }
    for (p, name) in witness_same.borrow().iter() {
        if feasible.get(p) != Some(&false) {
            witness_state.entry(name.clone()).or_insert((false, 0, 0)).1 += 1;
        }
    }
    for (k, v) in verdicts.iter().enumerate() {
        match &v.answer {
            Answer::Unsat => res.queries_unsat += 1,
            Answer::Sat(_) => res.queries_sat += 1,
            Answer::Unknown(r) if r.starts_with("skipped") => {}
            Answer::Unknown(_) => res.queries_inconclusive += 1,
        }
        let q = &queries[k];
        if res.samples.len() < 4 && !v.dedup {
            if let QKind::Goal { .. } = &kinds[k] {
                res.samples.push(json!({"query": q.label, "answer": match &v.answer { Answer::Unsat => "unsat".to_string(), Answer::Sat(_) => "sat".to_string(), Answer::Unknown(r) => format!("unknown: {}", r)}, "secs": v.secs, "smt2_bytes": q.text.len(), "smt2_head": q.text.lines().skip(3).take(6).collect::<Vec<_>>().join(" ")}));
            }
        }
        match (&kinds[k], &v.answer) {
            (QKind::Feasible { path, panic }, Answer::Sat(_)) => {
                if first_model.is_none() && panic.is_none() && feasible.get(path) == Some(&true) {
                    first_model = path_models.get(path).cloned();
                }
            }
            (QKind::Feasible { .. }, _) => {}
            (QKind::Goal { path, name }, ans) | (QKind::CutJustify { path, name }, ans) => {
                if feasible.get(path) == Some(&false) {
                    continue; // infeasible path: nothing to prove
                }
                if let Answer::Unknown(r) = ans {
                    if r.starts_with("skipped") {
                        continue; // not put to the solver (another query represents this goal)
                    }
                }
                let candidate = if matches!(&kinds[k], QKind::Goal { .. }) { failed_natively.get(name) } else { None };
                if let (Some((_, full, desc, gross)), Answer::Unknown(r)) = (candidate, ans) {
                    if r.starts_with("skipped") {
                        continue;
                    }
                    if *gross {
                        res.violations.push(Violation { goal: name.clone(), site: h.name(), witness_class: "goal-fails".into(), desc: format!("{} [solver: {}; the native failure is far beyond rounding]", desc, r), replay: json!({"harness": h.name(), "goal": name, "model": full}) });
                    } else {
                        res.inconclusive.push(format!("{}: fails natively by a small margin and the solver did not answer ({})", q.label, r));
                    }
                    continue;
                }
                if let (Some((_, full, desc, _)), Answer::Sat(_)) = (candidate, ans) {
                    res.violations.push(Violation { goal: name.clone(), site: h.name(), witness_class: "goal-fails".into(), desc: desc.clone(), replay: json!({"harness": h.name(), "goal": name, "model": full}) });
                    continue;
                }
                match ans {
                    Answer::Unsat => res.goals_proved += 1,
                    Answer::Sat(m) => {
                        match replay_goal(h, name, m, cfg.seed, false) {
                            Some((m2, d)) => res.violations.push(Violation {
                                goal: name.clone(),
                                site: h.name(),
                                witness_class: "goal-fails".into(),
                                desc: d,
                                replay: json!({"harness": h.name(), "goal": name, "model": m2}),
                            }),
                            None => res.hard_failures.push(format!("{}: sat but not reproduced natively (abstraction artefact or rounded model)", q.label)),
                        }
                    }
                    Answer::Unknown(r) => res.inconclusive.push(format!("{}: {}", q.label, r)),
                }
            }
            (QKind::Defined { path, desc }, ans) => {
                if feasible.get(path) == Some(&false) {
                    continue;
                }
                match ans {
                    Answer::Unsat => res.definedness_proved += 1,
                    Answer::Sat(_) => res.hard_failures.push(format!("{}: side condition {} can fail", q.label, desc)),
                    Answer::Unknown(r) => res.inconclusive.push(format!("{}: {}", q.label, r)),
                }
            }
            (QKind::Witness { path, name }, ans) => {
                if feasible.get(path) == Some(&false) {
                    continue;
                }
                let e = witness_state.entry(name.clone()).or_insert((false, 0usize, 0usize));
                if let Answer::Unknown(r) = ans {
                    if r.starts_with("skipped") {
                        continue;
                    }
                }
                match ans {
                    Answer::Sat(m) => {
                        if !e.0 && replay_witness(h, name, m, cfg.seed) {
                            e.0 = true;
                        }
                    }
                    Answer::Unsat => e.1 += 1,
                    Answer::Unknown(_) => e.2 += 1,
                }
            }
            (QKind::Twin { path, name }, ans) => {
                // the vacuity guard is meaningful only on paths known to be feasible
                if feasible.get(path) != Some(&true) {
                    continue;
                }
                res.twins_expected += 1;
                match ans {
                    Answer::Sat(m) => {
                        if replay_goal(h, name, m, cfg.seed, true).is_some() {
                            res.twins_refuted += 1;
                        } else {
                            res.hard_failures.push(format!("{}: twin refuted by solver but not natively", q.label));
                        }
                    }
                    Answer::Unsat => res.hard_failures.push(format!("{}: VACUITY — deliberately wrong goal was proved", q.label)),
                    Answer::Unknown(r) => res.inconclusive.push(format!("{}: twin {}", q.label, r)),
                }
            }
        }
    }

    for (name, (found, holds, unknown)) in &witness_state {
        res.witnesses_expected += 1;
        if *found {
            res.witnesses_found += 1;
        } else if *unknown > 0 {
            res.inconclusive.push(format!("{}: witness {} undecided ({} paths unknown)", h.name(), name, unknown));
        } else {
            // the relation holds on every feasible path: the expected dependence does not exist
            let confirmed = confirm_no_witness(h, name, cfg.seed);
            if confirmed {
                res.violations.push(Violation {
                    goal: name.clone(),
                    site: h.name(),
                    witness_class: "no-witness".into(),
                    desc: format!("'{}' holds on all {} feasible paths (solver) and at 64 native sample points: the expected dependence does not exist", name, holds),
                    replay: json!({"harness": h.name(), "goal": name, "kind": "no-witness"}),
                });
            } else {
                res.hard_failures.push(format!("{}: witness {} not found by the solver although native runs show it exists", h.name(), name));
            }
        }
    }
    // ---- encoder validation: guided symbolic run vs native run at concrete points
    let mut s = cfg.seed.wrapping_add(12345);
    for vi in 0..h.n_validate() {
        let mut model: BTreeMap<String, f64> = BTreeMap::new();
        for v in &all_vars {
            model.insert(v.clone(), h.sample_var(v, lcg(&mut s)));
        }
        if vi == 0 {
            if let Some(m) = &first_model {
                for (k, v) in m {
                    model.insert(k.clone(), *v);
                }
            }
        }
        match validate_at(h, &model) {
            Ok(n) => res.validations += n,
            Err(e) => res.hard_failures.push(format!("{}: encoder validation failed: {}", h.name(), e)),
        }
    }
    res.wall_s = t0.elapsed().as_secs_f64();
    res
}

fn classify_panic(msg: &str) -> String {
    if msg.contains("could not sample edge") {
        "sample_edge-fallthrough".into()
    } else if msg.contains("index out of bounds") || msg.contains("out of range") {
        "index-out-of-bounds".into()
    } else if msg.contains("overflow") {
        "arithmetic-overflow".into()
    } else if msg.contains("unreachable") {
        "unreachable".into()
    } else {
        "panic".into()
    }
}

/// run the harness symbolically along the path the concrete point takes and compare every
/// goal side (evaluated numerically from the DAG) with the native T=f64 run.
pub fn validate_at<H: Harness>(h: &H, model: &BTreeMap<String, f64>) -> Result<usize, String> {
    let mut fill = 99u64;
    let (no, npanic, full) = native_run(h, model, &mut fill);
    let native: Result<Outcome<f64>, String> = match npanic {
        Some(m) => Err(m),
        None => Ok(no),
    };
    let m2: HashMap<String, f64> = full.iter().map(|(k, v)| (k.clone(), *v)).collect();
    // guided run: decisions taken by evaluating atoms numerically
    let mut prefix: Vec<bool> = vec![];
    let cfgx = ExploreCfg { mode: h.mode(), rng_tags: h.rng_tags(), ..Default::default() };
    let mut guard = 0;
    loop {
        guard += 1;
        if guard > 10_000 {
            return Err("guided run did not converge".into());
        }
        let p = run_once(cfgx, &prefix, &|| {
            let mut o = Outcome::<Sym>::new();
            let r = std::panic::catch_unwind(std::panic::AssertUnwindSafe(|| h.run::<Sym>(&mut o)));
            (o, r.err().map(panic_msg))
        });
        let env = |n: &str| *m2.get(n).unwrap_or(&f64::NAN);
        let nar = |a: &[f64], b: u64| h.narrow_eval(a, b);
        // check decisions
        let mut ok = true;
        for (k, (a, val)) in p.taken.iter().enumerate() {
            let [l, r] = a.nodes();
            let (x, y) = (sym::eval_f64(&p.nodes, l, &env, &nar), sym::eval_f64(&p.nodes, r, &env, &nar));
            let truth = match a {
                Atom::Lt(..) => x < y,
                Atom::Le(..) => x <= y,
                Atom::Eq(..) => x == y,
            };
            if truth != *val {
                prefix = p.taken[..k].iter().map(|t| t.1).collect();
                prefix.push(truth);
                ok = false;
                break;
            }
        }
        if !ok {
            continue;
        }
        let (o, panic) = p.result.map_err(|e| format!("harness panic: {}", e))?;
        return match (native, panic) {
            (Err(_), Some(_)) => Ok(1),
            (Err(e), None) => Err(format!("native run panicked ({}) but symbolic run did not", e.chars().take(80).collect::<String>())),
            (Ok(_), Some(e)) => Err(format!("symbolic run panicked ({}) but native run did not", e.chars().take(80).collect::<String>())),
            (Ok(no), None) => {
                if no.goals.len() != o.goals.len() {
                    return Err(format!("goal count differs: native {} symbolic {}", no.goals.len(), o.goals.len()));
                }
                let mut n = 0;
                // values that are zero up to rounding are compared against the overall magnitude of the run
                let mut scale_all = 1.0f64;
                for gn in no.goals.iter() {
                    for v in [gn.lhs, gn.rhs] {
                        if v.is_finite() {
                            scale_all = scale_all.max(v.abs());
                        }
                    }
                }
                for (gs, gn) in o.goals.iter().zip(no.goals.iter()) {
                    for (sv, nv) in [(gs.lhs, gn.lhs), (gs.rhs, gn.rhs)] {
                        let x = sym::eval_f64(&p.nodes, sv.0, &env, &nar);
                        let sc = x.abs().max(nv.abs()).max(1e-300);
                        let same_bits = x.to_bits() == nv.to_bits();
                        if !same_bits && ((x.is_nan() != nv.is_nan()) || (!x.is_nan() && (x - nv).abs() > 1e-9 * sc + 1e-12 * scale_all)) {
                            return Err(format!("goal {}: term evaluates to {:e}, native {:e}", gs.name, x, nv));
                        }
                        n += 1;
                    }
                }
                Ok(n)
            }
        };
    }
}
