//! SMT-LIB2 emission of term DAGs and a parallel z3 command-line runner
//! (one fresh solver process per query; see DESIGN §2.4).
use crate::sym::{Atom, Node};
use num::rational::BigRational;
use num::{Signed, ToPrimitive};
use std::collections::hash_map::DefaultHasher;
use std::collections::{BTreeMap, BTreeSet, HashMap};
use std::fmt::Write as _;
use std::hash::{Hash, Hasher};
use std::io::Write as _;
use std::sync::atomic::{AtomicUsize, Ordering};
use std::sync::{Arc, Mutex};
use std::time::Instant;

#[derive(Clone, Copy, PartialEq, Eq, Debug)]
pub enum Transc {
    /// each transcendental node is a fresh constant (hash-consing gives syntactic congruence)
    Opaque,
    /// uninterpreted functions (full congruence)
    UF,
}
#[derive(Clone, Copy, PartialEq, Eq, Debug)]
pub enum PowEnc {
    /// y > 0 and y^q = b^p
    Algebraic,
    /// fresh y with 0 < y (and y <= 1 when `pow_le_one`)
    Opaque,
    /// pow_p_q(b), uninterpreted
    UF,
}

#[derive(Clone, Debug)]
pub struct Cut {
    pub name: String,
    /// constraints with `{}` standing for the name
    pub constraints: Vec<String>,
}

#[derive(Clone, Debug)]
pub struct EmitOpts {
    pub fp: bool,
    pub transc: Transc,
    pub pow: PowEnc,
    /// opaque pow nodes additionally get `<= 1` (sound when base in (0,1] and exponent > 0; caller's duty)
    pub pow_le_one: bool,
    pub cuts: HashMap<u32, Cut>,
    /// Sqrt(a) encoded as s>=0 & s*s=a (true) — always true in Real mode; kept for clarity
    pub prefix: String,
}
impl Default for EmitOpts {
    fn default() -> Self {
        EmitOpts { fp: false, transc: Transc::Opaque, pow: PowEnc::Algebraic, pow_le_one: false, cuts: HashMap::new(), prefix: "t".into() }
    }
}

pub struct Emitted {
    pub text: String,
    pub names: HashMap<u32, String>,
    pub vars: BTreeSet<String>,
    /// definedness obligations: (description, formula that must be valid under the assumptions)
    pub obligations: Vec<(String, String)>,
}
impl Emitted {
    pub fn n(&self, i: u32) -> &str {
        &self.names[&i]
    }
}

pub const F64: &str = "(_ FloatingPoint 11 53)";

pub fn rat_smt(r: &BigRational) -> String {
    let n = r.numer();
    let d = r.denom();
    let body = if d == &num::BigInt::from(1) { format!("{}.0", n.abs()) } else { format!("(/ {}.0 {}.0)", n.abs(), d) };
    if n.is_negative() {
        format!("(- {})", body)
    } else {
        body
    }
}
pub fn fp_const(bits: u64) -> String {
    format!("((_ to_fp 11 53) #x{:016x})", bits)
}
pub fn fp_lit(v: f64) -> String {
    fp_const(v.to_bits())
}

fn children(n: &Node) -> Vec<u32> {
    match n {
        Node::Add(a, b) | Node::Sub(a, b) | Node::Mul(a, b) | Node::Div(a, b) | Node::PowF(a, b) => vec![*a, *b],
        Node::Neg(a) | Node::Sqrt(a) | Node::Abs(a) | Node::Pow(a, _) | Node::Ln(a) | Node::Exp(a) | Node::Cos(a) | Node::Sin(a) => vec![*a],
        Node::Narrow(v, _) => v.clone(),
        _ => vec![],
    }
}

/// nodes in the cone of `roots` (through cuts: a cut node has no children)
pub fn cone(nodes: &[Node], roots: &[u32], cuts: &HashMap<u32, Cut>) -> Vec<u32> {
    // iterative post-order, deterministic in root order
    let mut order = vec![];
    let mut seen = BTreeSet::new();
    for &r in roots {
        let mut stack = vec![(r, false)];
        while let Some((i, done)) = stack.pop() {
            if done {
                order.push(i);
                continue;
            }
            if !seen.insert(i) {
                continue;
            }
            stack.push((i, true));
            if cuts.contains_key(&i) {
                continue;
            }
            for c in children(&nodes[i as usize]).into_iter().rev() {
                if !seen.contains(&c) {
                    stack.push((c, false));
                }
            }
        }
    }
    order
}

pub fn vars_in_cone(nodes: &[Node], roots: &[u32]) -> BTreeSet<String> {
    cone(nodes, roots, &HashMap::new())
        .into_iter()
        .filter_map(|i| if let Node::Var(n) = &nodes[i as usize] { Some(n.clone()) } else { None })
        .collect()
}

fn pw(x: &str, k: u32) -> String {
    if k == 0 {
        "1.0".into()
    } else if k == 1 {
        x.to_string()
    } else {
        format!("(* {})", vec![x; k as usize].join(" "))
    }
}

/// emit declarations/definitions for the cone of `roots`, canonically renumbered
pub fn emit(nodes: &[Node], roots: &[u32], o: &EmitOpts) -> Emitted {
    let order = cone(nodes, roots, &o.cuts);
    let mut names: HashMap<u32, String> = HashMap::new();
    let mut s = String::new();
    let mut vars = BTreeSet::new();
    let mut obligations = vec![];
    let mut ufs: BTreeSet<String> = BTreeSet::new();
    let sort = if o.fp { F64 } else { "Real" };
    let mut k = 0usize;
    for &i in &order {
        let nm = format!("{}{}", o.prefix, k);
        k += 1;
        if let Some(cut) = o.cuts.get(&i) {
            if vars.insert(cut.name.clone()) {
                writeln!(s, "(declare-const {} {})", cut.name, sort).unwrap();
                for c in &cut.constraints {
                    writeln!(s, "(assert {})", c.replace("{}", &cut.name)).unwrap();
                }
            }
            names.insert(i, cut.name.clone());
            continue;
        }
        let n = &nodes[i as usize];
        let g = |j: &u32| names[j].clone();
        let mut def = |s: &mut String, e: String| {
            writeln!(s, "(define-fun {} () {} {})", nm, sort, e).unwrap();
        };
        let mut uf = |s: &mut String, ufs: &mut BTreeSet<String>, f: &str, args: &[String]| {
            if ufs.insert(f.to_string()) {
                writeln!(s, "(declare-fun {} ({}) {})", f, vec![sort; args.len()].join(" "), sort).unwrap();
            }
            format!("({} {})", f, args.join(" "))
        };
        if o.fp {
            match n {
                Node::Var(name) => {
                    if vars.insert(name.clone()) {
                        writeln!(s, "(declare-const {} {})", name, sort).unwrap();
                    }
                    names.insert(i, name.clone());
                    continue;
                }
                Node::CF(b) => def(&mut s, fp_const(*b)),
                Node::Const(r) => def(&mut s, fp_lit(r.to_f64().unwrap())),
                Node::Pi => def(&mut s, fp_lit(std::f64::consts::PI)),
                Node::Add(a, b) => def(&mut s, format!("(fp.add RNE {} {})", g(a), g(b))),
                Node::Sub(a, b) => def(&mut s, format!("(fp.sub RNE {} {})", g(a), g(b))),
                Node::Mul(a, b) => def(&mut s, format!("(fp.mul RNE {} {})", g(a), g(b))),
                Node::Div(a, b) => def(&mut s, format!("(fp.div RNE {} {})", g(a), g(b))),
                Node::Neg(a) => def(&mut s, format!("(fp.neg {})", g(a))),
                Node::Abs(a) => def(&mut s, format!("(fp.abs {})", g(a))),
                Node::Sqrt(a) => def(&mut s, format!("(fp.sqrt RNE {})", g(a))),
                Node::PowF(a, b) => {
                    let e = uf(&mut s, &mut ufs, "f_powf", &[g(a), g(b)]);
                    def(&mut s, e)
                }
                Node::Pow(..) => panic!("SYMX-INTERNAL: rational Pow in Fp emission"),
                Node::Ln(a) | Node::Exp(a) | Node::Cos(a) | Node::Sin(a) => {
                    let f = match n {
                        Node::Ln(_) => "f_ln",
                        Node::Exp(_) => "f_exp",
                        Node::Cos(_) => "f_cos",
                        _ => "f_sin",
                    };
                    let e = uf(&mut s, &mut ufs, f, &[g(a)]);
                    def(&mut s, e)
                }
                Node::Narrow(args, bits) => {
                    let f = format!("f_narrow_{:016x}_{}", bits, args.len());
                    let a: Vec<String> = args.iter().map(|x| g(x)).collect();
                    let e = uf(&mut s, &mut ufs, &f, &a);
                    def(&mut s, e)
                }
            }
            names.insert(i, nm);
            continue;
        }
        match n {
            Node::Var(name) => {
                if vars.insert(name.clone()) {
                    writeln!(s, "(declare-const {} Real)", name).unwrap();
                }
                names.insert(i, name.clone());
                continue;
            }
            Node::Const(r) => def(&mut s, rat_smt(r)),
            Node::CF(_) => panic!("SYMX-INTERNAL: CF in Real emission"),
            Node::Pi => {
                if vars.insert("pi".into()) {
                    writeln!(s, "(declare-const pi Real)\n(assert (and (> pi 3.14159265) (< pi 3.14159266)))").unwrap();
                }
                names.insert(i, "pi".into());
                continue;
            }
            Node::Add(a, b) => def(&mut s, format!("(+ {} {})", g(a), g(b))),
            Node::Sub(a, b) => def(&mut s, format!("(- {} {})", g(a), g(b))),
            Node::Mul(a, b) => def(&mut s, format!("(* {} {})", g(a), g(b))),
            Node::Div(a, b) => {
                obligations.push((format!("div-nonzero n{}", i), format!("(not (= {} 0.0))", g(b))));
                def(&mut s, format!("(/ {} {})", g(a), g(b)))
            }
            Node::Neg(a) => def(&mut s, format!("(- {})", g(a))),
            Node::Abs(a) => def(&mut s, format!("(ite (>= {} 0.0) {} (- {}))", g(a), g(a), g(a))),
            Node::Sqrt(a) => {
                obligations.push((format!("sqrt-arg-nonneg n{}", i), format!("(>= {} 0.0)", g(a))));
                writeln!(s, "(declare-const {} Real)\n(assert (>= {} 0.0))\n(assert (= (* {} {}) {}))", nm, nm, nm, nm, g(a)).unwrap();
            }
            Node::Pow(a, e) => {
                obligations.push((format!("pow-base-pos n{}", i), format!("(> {} 0.0)", g(a))));
                let pq = (e.numer().abs().to_u32(), e.denom().to_u32());
                let small = matches!(pq, (Some(p), Some(q)) if p <= 64 && q <= 64);
                // exponents that are not small rationals (non-dyadic f64 weights) are kept opaque:
                // only y > 0 is known — an over-approximation, sound for `unsat`
                let enc = if small { o.pow } else { PowEnc::Opaque };
                let (p, q) = if small { (pq.0.unwrap(), pq.1.unwrap()) } else { (0, 0) };
                match enc {
                    PowEnc::Algebraic => {
                        writeln!(s, "(declare-const {} Real)\n(assert (> {} 0.0))", nm, nm).unwrap();
                        if e.is_positive() {
                            writeln!(s, "(assert (= {} {}))", pw(&nm, q), pw(&g(a), p)).unwrap();
                        } else {
                            writeln!(s, "(assert (= (* {} {}) 1.0))", pw(&nm, q), pw(&g(a), p)).unwrap();
                        }
                    }
                    PowEnc::Opaque => {
                        writeln!(s, "(declare-const {} Real)\n(assert (> {} 0.0))", nm, nm).unwrap();
                        if o.pow_le_one && e.is_positive() {
                            writeln!(s, "(assert (<= {} 1.0))", nm).unwrap();
                        }
                    }
                    PowEnc::UF => {
                        let f = format!("pow_{}{}_{}", if e.is_negative() { "m" } else { "" }, p, q);
                        let ex = uf(&mut s, &mut ufs, &f, &[g(a)]);
                        def(&mut s, ex);
                        writeln!(s, "(assert (> {} 0.0))", nm).unwrap();
                    }
                }
            }
            Node::PowF(..) => panic!("SYMX-INTERNAL: PowF in Real emission"),
            Node::Ln(a) | Node::Exp(a) | Node::Cos(a) | Node::Sin(a) => {
                if let Node::Ln(_) = n {
                    obligations.push((format!("ln-arg-pos n{}", i), format!("(> {} 0.0)", g(a))));
                }
                match o.transc {
                    Transc::Opaque => writeln!(s, "(declare-const {} Real)", nm).unwrap(),
                    Transc::UF => {
                        let f = match n {
                            Node::Ln(_) => "f_ln",
                            Node::Exp(_) => "f_exp",
                            Node::Cos(_) => "f_cos",
                            _ => "f_sin",
                        };
                        let e = uf(&mut s, &mut ufs, f, &[g(a)]);
                        def(&mut s, e)
                    }
                }
            }
            Node::Narrow(args, bits) => match o.transc {
                Transc::Opaque => writeln!(s, "(declare-const {} Real)", nm).unwrap(),
                Transc::UF => {
                    let f = format!("f_narrow_{:016x}_{}", bits, args.len());
                    let a: Vec<String> = args.iter().map(|x| g(x)).collect();
                    let e = uf(&mut s, &mut ufs, &f, &a);
                    def(&mut s, e)
                }
            },
        }
        names.insert(i, nm);
    }
    Emitted { text: s, names, vars, obligations }
}

/// Log-linear emission: every positive term t is represented by a real variable standing for log t.
/// Products, quotients, constant rational powers and square roots become linear expressions, so
/// multiplicative identities and monomial inequalities are decided exactly in linear real arithmetic.
/// Variables and cut nodes are free (they must be positive: caller's duty, stated with the goal);
/// sums and everything else are opaque positive quantities (a fresh free variable each);
/// zero / negative constants have no image (conditions mentioning them are dropped, which is sound).
pub fn emit_loglin(nodes: &[Node], roots: &[u32], cuts: &HashMap<u32, Cut>, prefix: &str) -> Emitted {
    let order = cone(nodes, roots, cuts);
    let mut names: HashMap<u32, String> = HashMap::new();
    let mut s = String::new();
    let mut vars = BTreeSet::new();
    let mut consts: HashMap<BigRational, String> = HashMap::new();
    let mut k = 0usize;
    use num::{One, Zero};
    for &i in &order {
        let nm = format!("{}{}", prefix, k);
        k += 1;
        if let Some(cut) = cuts.get(&i) {
            let ln = format!("L_{}", cut.name);
            if vars.insert(ln.clone()) {
                writeln!(s, "(declare-const {} Real)", ln).unwrap();
                for c in &cut.constraints {
                    // known constraint shapes, translated to log space
                    let c = c.replace(' ', "");
                    if c == "(<={}1.0)" {
                        writeln!(s, "(assert (<= {} 0.0))", ln).unwrap();
                    } else if c == "(<{}1.0)" {
                        writeln!(s, "(assert (< {} 0.0))", ln).unwrap();
                    }
                }
            }
            names.insert(i, ln);
            continue;
        }
        let g = |j: &u32| names.get(j).cloned();
        let fresh = |s: &mut String, nm: &str| {
            writeln!(s, "(declare-const {} Real)", nm).unwrap();
        };
        let expr: Option<String> = match &nodes[i as usize] {
            Node::Var(name) => {
                let ln = format!("L_{}", name);
                if vars.insert(ln.clone()) {
                    writeln!(s, "(declare-const {} Real)", ln).unwrap();
                }
                names.insert(i, ln);
                continue;
            }
            Node::Const(c) => {
                if c.is_one() {
                    Some("0.0".into())
                } else if *c > BigRational::zero() {
                    let n = consts.len();
                    let cn = consts.entry(c.clone()).or_insert_with(|| format!("lc{}", n)).clone();
                    if vars.insert(cn.clone()) {
                        writeln!(s, "(declare-const {} Real)", cn).unwrap();
                        // the only fact used about a constant's logarithm is its sign
                        if *c > BigRational::one() {
                            writeln!(s, "(assert (> {} 0.0))", cn).unwrap();
                        } else {
                            writeln!(s, "(assert (< {} 0.0))", cn).unwrap();
                        }
                    }
                    Some(cn)
                } else {
                    None
                }
            }
            Node::Mul(a, b) => match (g(a), g(b)) {
                (Some(x), Some(y)) => Some(format!("(+ {} {})", x, y)),
                _ => None,
            },
            Node::Div(a, b) => match (g(a), g(b)) {
                (Some(x), Some(y)) => Some(format!("(- {} {})", x, y)),
                _ => None,
            },
            Node::Pow(a, e) => g(a).map(|x| format!("(* {} {})", rat_smt(e), x)),
            Node::Sqrt(a) => g(a).map(|x| format!("(* 0.5 {})", x)),
            Node::Pi => {
                if vars.insert("lpi".into()) {
                    writeln!(s, "(declare-const lpi Real)\n(assert (> lpi 0.0))").unwrap();
                }
                Some("lpi".into())
            }
            _ => {
                fresh(&mut s, &nm);
                names.insert(i, nm);
                continue;
            }
        };
        if let Some(e) = expr {
            writeln!(s, "(define-fun {} () Real {})", nm, e).unwrap();
            names.insert(i, nm);
        }
    }
    Emitted { text: s, names, vars, obligations: vec![] }
}

pub fn atom_smt(e: &Emitted, a: &Atom, v: bool, fp: bool) -> String {
    let (op, x, y) = match a {
        Atom::Lt(x, y) => (if fp { "fp.lt" } else { "<" }, x, y),
        Atom::Le(x, y) => (if fp { "fp.leq" } else { "<=" }, x, y),
        Atom::Eq(x, y) => (if fp { "fp.eq" } else { "=" }, x, y),
    };
    let s = format!("({} {} {})", op, e.n(*x), e.n(*y));
    if v {
        s
    } else {
        format!("(not {})", s)
    }
}

// ---------------------------------------------------------------------------------------------
// queries

#[derive(Clone, Debug)]
pub struct Query {
    pub label: String,
    pub text: String,
    pub timeout_s: u32,
    /// variables whose values are wanted on `sat`
    pub model_vars: Vec<String>,
    /// what the harness expects: Some(true)=sat expected (feasibility, twins), Some(false)=unsat expected (goals)
    pub expect_sat: Option<bool>,
}

#[derive(Clone, Debug, PartialEq)]
pub enum Answer {
    Unsat,
    Sat(BTreeMap<String, f64>),
    Unknown(String),
}
#[derive(Clone, Debug)]
pub struct Verdict {
    pub answer: Answer,
    pub secs: f64,
    pub dedup: bool,
}

pub fn logic_header(fp: bool, uf: bool) -> String {
    let logic = if fp {
        if uf { "QF_UFFP" } else { "QF_FP" }
    } else if uf {
        "QF_UFNRA"
    } else {
        "QF_NRA"
    };
    format!("(set-option :pp.decimal true)\n(set-option :pp.decimal_precision 20)\n(set-logic {})\n", logic)
}

pub fn build_query(header: &str, body: &str, asserts: &[String], neg_goal: Option<&str>, model_vars: &[String]) -> String {
    let mut q = String::new();
    q += header;
    q += body;
    for a in asserts {
        writeln!(q, "(assert {})", a).unwrap();
    }
    if let Some(g) = neg_goal {
        writeln!(q, "(assert (not {}))", g).unwrap();
    }
    q += "(check-sat)\n";
    if !model_vars.is_empty() {
        writeln!(q, "(get-value ({}))", model_vars.join(" ")).unwrap();
    }
    q
}

fn hash_text(t: &str) -> u64 {
    let mut h = DefaultHasher::new();
    t.hash(&mut h);
    h.finish()
}

// --- tiny s-expression reader for (get-value ...) output
#[derive(Debug, Clone)]
enum Sx {
    A(String),
    L(Vec<Sx>),
}
fn parse_sx(s: &str) -> Vec<Sx> {
    let mut toks = vec![];
    let mut cur = String::new();
    for ch in s.chars() {
        match ch {
            '(' | ')' => {
                if !cur.is_empty() {
                    toks.push(std::mem::take(&mut cur));
                }
                toks.push(ch.to_string());
            }
            c if c.is_whitespace() => {
                if !cur.is_empty() {
                    toks.push(std::mem::take(&mut cur));
                }
            }
            c => cur.push(c),
        }
    }
    if !cur.is_empty() {
        toks.push(cur);
    }
    fn go(t: &[String], p: &mut usize) -> Option<Sx> {
        if *p >= t.len() {
            return None;
        }
        if t[*p] == "(" {
            *p += 1;
            let mut v = vec![];
            while *p < t.len() && t[*p] != ")" {
                v.push(go(t, p)?);
            }
            *p += 1;
            Some(Sx::L(v))
        } else {
            *p += 1;
            Some(Sx::A(t[*p - 1].clone()))
        }
    }
    let mut out = vec![];
    let mut p = 0;
    while let Some(x) = go(&toks, &mut p) {
        out.push(x);
    }
    out
}
fn sx_num(x: &Sx) -> Option<f64> {
    match x {
        Sx::A(a) => a.trim_end_matches('?').parse::<f64>().ok(),
        Sx::L(v) => {
            let head = if let Some(Sx::A(h)) = v.first() { h.as_str() } else { return None };
            match head {
                "-" if v.len() == 2 => Some(-sx_num(&v[1])?),
                "-" if v.len() == 3 => Some(sx_num(&v[1])? - sx_num(&v[2])?),
                "+" => v[1..].iter().map(sx_num).sum(),
                "*" => v[1..].iter().map(sx_num).product(),
                "/" if v.len() == 3 => Some(sx_num(&v[1])? / sx_num(&v[2])?),
                "fp" if v.len() == 4 => {
                    let bits = |x: &Sx| -> Option<(u64, u32)> {
                        if let Sx::A(a) = x {
                            if let Some(b) = a.strip_prefix("#b") {
                                return Some((u64::from_str_radix(b, 2).ok()?, b.len() as u32));
                            }
                            if let Some(h) = a.strip_prefix("#x") {
                                return Some((u64::from_str_radix(h, 16).ok()?, 4 * h.len() as u32));
                            }
                        }
                        None
                    };
                    let (s, _) = bits(&v[1])?;
                    let (e, _) = bits(&v[2])?;
                    let (m, _) = bits(&v[3])?;
                    Some(f64::from_bits((s << 63) | (e << 52) | m))
                }
                "_" if v.len() >= 2 => {
                    if let Sx::A(k) = &v[1] {
                        match k.as_str() {
                            "NaN" => Some(f64::NAN),
                            "+oo" => Some(f64::INFINITY),
                            "-oo" => Some(f64::NEG_INFINITY),
                            "+zero" => Some(0.0),
                            "-zero" => Some(-0.0),
                            _ => None,
                        }
                    } else {
                        None
                    }
                }
                _ => None,
            }
        }
    }
}
pub fn parse_model(out: &str) -> Option<BTreeMap<String, f64>> {
    let mut m = BTreeMap::new();
    for top in parse_sx(out) {
        if let Sx::L(pairs) = top {
            for p in pairs {
                if let Sx::L(kv) = p {
                    if kv.len() == 2 {
                        if let Sx::A(k) = &kv[0] {
                            m.insert(k.clone(), sx_num(&kv[1])?);
                        }
                    }
                }
            }
        }
    }
    Some(m)
}

pub fn scratch_dir() -> String {
    let d = std::env::var("SYMX_SCRATCH").unwrap_or_else(|_| "/verif/work/q".into());
    std::fs::create_dir_all(&d).ok();
    d
}

/// at most SYMX_JOBS (16) solver processes at a time, however many harness threads are running
static PERMITS: Mutex<usize> = Mutex::new(0);
static PERMIT_CV: std::sync::Condvar = std::sync::Condvar::new();
struct Permit;
impl Permit {
    fn take() -> Permit {
        let max: usize = std::env::var("SYMX_JOBS").ok().and_then(|s| s.parse().ok()).unwrap_or(16);
        let mut n = PERMITS.lock().unwrap();
        while *n >= max {
            n = PERMIT_CV.wait(n).unwrap();
        }
        *n += 1;
        Permit
    }
}
impl Drop for Permit {
    fn drop(&mut self) {
        *PERMITS.lock().unwrap() -= 1;
        PERMIT_CV.notify_one();
    }
}

fn run_one(solver: &str, q: &Query, tag: &str) -> (Answer, f64) {
    let _permit = Permit::take();
    let t = Instant::now();
    // unique per process *and* per call: harnesses may run in parallel threads
    static SEQ: AtomicUsize = AtomicUsize::new(0);
    let path = format!("{}/q_{}_{}_{}.smt2", scratch_dir(), std::process::id(), SEQ.fetch_add(1, Ordering::SeqCst), tag);
    std::fs::File::create(&path).unwrap().write_all(q.text.as_bytes()).unwrap();
    let out = std::process::Command::new("timeout")
        .arg("-k")
        .arg("2")
        .arg(format!("{}", q.timeout_s + 2))
        .arg(solver)
        .arg(format!("-T:{}", q.timeout_s))
        .arg("-memory:6000")
        .arg(&path)
        .output();
    let secs = t.elapsed().as_secs_f64();
    if std::env::var("SYMX_KEEP_QUERIES").is_err() {
        std::fs::remove_file(&path).ok();
    }
    let out = match out {
        Ok(o) => o,
        Err(e) => return (Answer::Unknown(format!("spawn failed: {}", e)), secs),
    };
    let so = String::from_utf8_lossy(&out.stdout).to_string();
    let first = so.lines().next().unwrap_or("").trim().to_string();
    let rest: String = so.lines().skip(1).collect::<Vec<_>>().join("\n");
    let ans = match first.as_str() {
        "unsat" => {
            // the only tolerated error after unsat is the model request
            let bad = rest.lines().any(|l| l.contains("(error") && !l.contains("model is not available"));
            if bad {
                Answer::Unknown(format!("error line in solver output: {}", rest.lines().find(|l| l.contains("(error")).unwrap_or("")))
            } else {
                Answer::Unsat
            }
        }
        "sat" => {
            if rest.contains("(error") {
                Answer::Unknown("error line after sat".into())
            } else if q.model_vars.is_empty() {
                Answer::Sat(BTreeMap::new())
            } else {
                match parse_model(&rest) {
                    Some(m) => Answer::Sat(m),
                    None => Answer::Unknown(format!("unparsable model: {}", rest.chars().take(200).collect::<String>())),
                }
            }
        }
        "unknown" => Answer::Unknown("solver answered unknown".into()),
        "" | "timeout" => Answer::Unknown("timeout".into()),
        other => Answer::Unknown(format!("solver output: {}", other.chars().take(120).collect::<String>())),
    };
    (ans, secs)
}

pub struct RunStats {
    pub total: usize,
    pub distinct: usize,
    pub solver_s: f64,
    pub wall_s: f64,
}

/// discharge all queries, 16 solver processes in parallel, identical texts once
pub fn run_queries(solver: &str, qs: &[Query]) -> (Vec<Verdict>, RunStats) {
    let t0 = Instant::now();
    let mut first_of: HashMap<u64, usize> = HashMap::new();
    let mut rep: Vec<usize> = Vec::with_capacity(qs.len());
    let mut distinct: Vec<usize> = vec![];
    for (i, q) in qs.iter().enumerate() {
        let h = hash_text(&q.text);
        match first_of.get(&h) {
            Some(&j) if qs[j].text == q.text => rep.push(j),
            _ => {
                first_of.insert(h, i);
                rep.push(i);
                distinct.push(i);
            }
        }
    }
    let results: Arc<Mutex<HashMap<usize, (Answer, f64)>>> = Arc::new(Mutex::new(HashMap::new()));
    let next = Arc::new(AtomicUsize::new(0));
    let nthreads: usize = std::env::var("SYMX_JOBS").ok().and_then(|s| s.parse().ok()).unwrap_or(16);
    std::thread::scope(|sc| {
        for w in 0..nthreads.min(distinct.len().max(1)) {
            let results = results.clone();
            let next = next.clone();
            let distinct = &distinct;
            sc.spawn(move || loop {
                let k = next.fetch_add(1, Ordering::SeqCst);
                if k >= distinct.len() {
                    break;
                }
                let i = distinct[k];
                let r = run_one(solver, &qs[i], &format!("{}_{}", w, k));
                results.lock().unwrap().insert(i, r);
            });
        }
    });
    let results = results.lock().unwrap();
    let mut solver_s = 0.0;
    for i in &distinct {
        solver_s += results[i].1;
    }
    let verdicts = (0..qs.len())
        .map(|i| {
            let (a, s) = results[&rep[i]].clone();
            Verdict { answer: a, secs: s, dedup: rep[i] != i }
        })
        .collect();
    (verdicts, RunStats { total: qs.len(), distinct: distinct.len(), solver_s, wall_s: t0.elapsed().as_secs_f64() })
}
