//! Independent oracle code: linear algebra and graph polynomials, generic over the scalar
//! (so the same specification yields solver terms and native numbers). Never calls momtrop.
use crate::scalar::Scalar;
use std::collections::HashMap;

/// determinant by Laplace expansion with shared minors (DAG of 2^n minors)
pub fn det<T: Scalar>(m: &[Vec<T>]) -> T {
    let n = m.len();
    if n == 0 {
        return T::rat(1, 1);
    }
    // minor(rows k.., cols in mask)
    fn go<T: Scalar>(m: &[Vec<T>], k: usize, mask: u32, memo: &mut HashMap<u32, T>) -> T {
        let n = m.len();
        if k == n {
            return T::rat(1, 1);
        }
        if let Some(v) = memo.get(&mask) {
            return *v;
        }
        let mut acc: Option<T> = None;
        let mut sign = 1;
        for c in 0..n {
            if mask & (1 << c) == 0 {
                continue;
            }
            let sub = go(m, k + 1, mask & !(1 << c), memo);
            let term = m[k][c] * sub;
            acc = Some(match acc {
                None => {
                    if sign == 1 {
                        term
                    } else {
                        -term
                    }
                }
                Some(a) => {
                    if sign == 1 {
                        a + term
                    } else {
                        a - term
                    }
                }
            });
            sign = -sign;
        }
        let v = acc.unwrap();
        memo.insert(mask, v);
        v
    }
    let mut memo = HashMap::new();
    go(m, 0, (1u32 << n) - 1, &mut memo)
}

pub fn leading_minor<T: Scalar>(m: &[Vec<T>], k: usize) -> T {
    let sub: Vec<Vec<T>> = (0..k).map(|i| m[i][..k].to_vec()).collect();
    det(&sub)
}
