//! Independent oracle code: linear algebra and graph polynomials, generic over the scalar
//! (so the same specification yields solver terms and native numbers). Never calls momtrop.
use crate::scalar::Scalar;
use std::collections::HashMap;

/// determinant by Laplace expansion with shared minors (DAG of 2^n minors)
pub fn det<T: Scalar>(m: &[Vec<T>]) -> T {
    let n = m.len();
    if n == 0 {
        return T::rat(1, 1);
    }
    // minor(rows k.., cols in mask)
    fn go<T: Scalar>(m: &[Vec<T>], k: usize, mask: u32, memo: &mut HashMap<u32, T>) -> T {
        let n = m.len();
        if k == n {
            return T::rat(1, 1);
        }
        if let Some(v) = memo.get(&mask) {
            return *v;
        }
        let mut acc: Option<T> = None;
        let mut sign = 1;
        for c in 0..n {
            if mask & (1 << c) == 0 {
                continue;
            }
            let sub = go(m, k + 1, mask & !(1 << c), memo);
            let term = m[k][c] * sub;
            acc = Some(match acc {
                None => {
                    if sign == 1 {
                        term
                    } else {
                        -term
                    }
                }
                Some(a) => {
                    if sign == 1 {
                        a + term
                    } else {
                        a - term
                    }
                }
            });
            sign = -sign;
        }
        let v = acc.unwrap();
        memo.insert(mask, v);
        v
    }
    let mut memo = HashMap::new();
    go(m, 0, (1u32 << n) - 1, &mut memo)
}

pub fn leading_minor<T: Scalar>(m: &[Vec<T>], k: usize) -> T {
    let sub: Vec<Vec<T>> = (0..k).map(|i| m[i][..k].to_vec()).collect();
    det(&sub)
}

// ---------------------------------------------------------------------------------------------
// graph oracle (union-find based; independent of momtrop's HashSet routines)

use num::rational::BigRational;
use num::{One, Zero};

#[derive(Clone, Debug)]
pub struct OGraph {
    pub edges: Vec<(u8, u8)>,
    pub massive: Vec<bool>,
    pub weights: Vec<BigRational>,
    pub externals: Vec<u8>,
}

fn find(p: &mut Vec<usize>, i: usize) -> usize {
    let mut r = i;
    while p[r] != r {
        r = p[r];
    }
    let mut c = i;
    while p[c] != r {
        let n = p[c];
        p[c] = r;
        c = n;
    }
    r
}

impl OGraph {
    pub fn ne(&self) -> usize {
        self.edges.len()
    }
    pub fn full(&self) -> u64 {
        (1u64 << self.ne()) - 1
    }
    /// all vertex labels touched by an edge of the graph, sorted
    pub fn vertices(&self) -> Vec<u8> {
        let mut v: Vec<u8> = self.edges.iter().flat_map(|e| [e.0, e.1]).collect();
        v.sort();
        v.dedup();
        v
    }
    fn vidx(&self) -> std::collections::HashMap<u8, usize> {
        self.vertices().into_iter().enumerate().map(|(i, v)| (v, i)).collect()
    }
    /// union-find over all graph vertices using the edges in `mask`; returns root per vertex index
    pub fn roots(&self, mask: u64) -> Vec<usize> {
        let idx = self.vidx();
        let mut p: Vec<usize> = (0..idx.len()).collect();
        for (e, (a, b)) in self.edges.iter().enumerate() {
            if mask >> e & 1 == 1 {
                let (ra, rb) = (find(&mut p, idx[a]), find(&mut p, idx[b]));
                if ra != rb {
                    p[ra] = rb;
                }
            }
        }
        (0..p.len()).map(|i| find(&mut p, i)).collect()
    }
    /// (edges, touched vertices, connected components among touched vertices)
    pub fn evc(&self, mask: u64) -> (usize, usize, usize) {
        let idx = self.vidx();
        let roots = self.roots(mask);
        let mut touched = vec![false; idx.len()];
        let mut ne = 0;
        for (e, (a, b)) in self.edges.iter().enumerate() {
            if mask >> e & 1 == 1 {
                ne += 1;
                touched[idx[a]] = true;
                touched[idx[b]] = true;
            }
        }
        let nv = touched.iter().filter(|t| **t).count();
        let mut comps: Vec<usize> = (0..idx.len()).filter(|i| touched[*i]).map(|i| roots[i]).collect();
        comps.sort();
        comps.dedup();
        (ne, nv, comps.len())
    }
    /// cyclomatic number: edges - touched vertices + components
    pub fn loops(&self, mask: u64) -> usize {
        let (e, v, c) = self.evc(mask);
        e + c - v
    }
    /// contains every massive edge and has one connected component touching every external vertex
    pub fn mm_spanning(&self, mask: u64) -> bool {
        for e in 0..self.ne() {
            if self.massive[e] && mask >> e & 1 == 0 {
                return false;
            }
        }
        if mask == 0 {
            return false;
        }
        let idx = self.vidx();
        let roots = self.roots(mask);
        let mut touched = vec![false; idx.len()];
        for (e, (a, b)) in self.edges.iter().enumerate() {
            if mask >> e & 1 == 1 {
                touched[idx[a]] = true;
                touched[idx[b]] = true;
            }
        }
        let mut comp: Option<usize> = None;
        for v in &self.externals {
            let i = match idx.get(v) {
                Some(i) if touched[*i] => *i,
                _ => return false,
            };
            match comp {
                None => comp = Some(roots[i]),
                Some(c) if c != roots[i] => return false,
                _ => {}
            }
        }
        true
    }
    pub fn weight_sum(&self, mask: u64) -> BigRational {
        let mut s = BigRational::zero();
        for e in 0..self.ne() {
            if mask >> e & 1 == 1 {
                s += &self.weights[e];
            }
        }
        s
    }
    pub fn dod(&self, d: usize) -> BigRational {
        self.weight_sum(self.full()) - BigRational::new((self.loops(self.full()) * d).into(), 2.into())
    }
    /// generalised degree of divergence
    pub fn omega(&self, mask: u64, d: usize) -> BigRational {
        if mask == 0 {
            return BigRational::one();
        }
        let mut w = self.weight_sum(mask) - BigRational::new((self.loops(mask) * d).into(), 2.into());
        if self.mm_spanning(mask) {
            w -= self.dod(d);
        }
        w
    }
    pub fn num_loops(&self) -> usize {
        self.loops(self.full())
    }
    /// the graph is connected (all touched vertices in one component)
    pub fn connected(&self) -> bool {
        self.evc(self.full()).2 == 1
    }
    /// edge masks of all spanning trees
    pub fn spanning_trees(&self) -> Vec<u64> {
        let nv = self.vertices().len();
        let mut out = vec![];
        for m in 0..=self.full() {
            if (m.count_ones() as usize) + 1 == nv {
                let (_, v, c) = self.evc(m);
                if self.loops(m) == 0 && ((nv == 1) || (v == nv && c == 1)) {
                    out.push(m);
                }
            }
        }
        out
    }
    /// spanning 2-forests: (edge mask, vertex-index membership of the first tree)
    pub fn two_forests(&self) -> Vec<(u64, Vec<bool>)> {
        let nv = self.vertices().len();
        let mut out = vec![];
        if nv < 2 {
            return out;
        }
        for m in 0..=self.full() {
            if (m.count_ones() as usize) + 2 == nv && self.loops(m) == 0 {
                let roots = self.roots(m);
                let r0 = roots[0];
                let side: Vec<bool> = roots.iter().map(|r| *r == r0).collect();
                let mut rs = roots.clone();
                rs.sort();
                rs.dedup();
                if rs.len() == 2 {
                    out.push((m, side));
                }
            }
        }
        out
    }
    /// fundamental cycle basis w.r.t. spanning tree `tree`: signature matrix [edge][cycle]
    pub fn fundamental_signature(&self, tree: u64) -> Vec<Vec<isize>> {
        let idx = self.vidx();
        let ne = self.ne();
        let non_tree: Vec<usize> = (0..ne).filter(|e| tree >> e & 1 == 0).collect();
        let mut sig = vec![vec![0isize; non_tree.len()]; ne];
        for (c, &e) in non_tree.iter().enumerate() {
            sig[e][c] = 1;
            let (l, r) = (idx[&self.edges[e].0], idx[&self.edges[e].1]);
            if l == r {
                continue;
            }
            // path in the tree from r back to l
            let path = self.tree_path(tree, r, l);
            for (f, forward) in path {
                sig[f][c] = if forward { 1 } else { -1 };
            }
        }
        sig
    }
    /// edges (with direction flag: traversed left->right) on the tree path from vertex index a to b
    fn tree_path(&self, tree: u64, a: usize, b: usize) -> Vec<(usize, bool)> {
        let idx = self.vidx();
        let nv = idx.len();
        let mut prev: Vec<Option<(usize, usize, bool)>> = vec![None; nv];
        let mut seen = vec![false; nv];
        let mut queue = std::collections::VecDeque::new();
        seen[a] = true;
        queue.push_back(a);
        while let Some(v) = queue.pop_front() {
            for (f, (l, r)) in self.edges.iter().enumerate() {
                if tree >> f & 1 == 0 {
                    continue;
                }
                let (li, ri) = (idx[l], idx[r]);
                if li == v && !seen[ri] {
                    seen[ri] = true;
                    prev[ri] = Some((v, f, true));
                    queue.push_back(ri);
                } else if ri == v && !seen[li] {
                    seen[li] = true;
                    prev[li] = Some((v, f, false));
                    queue.push_back(li);
                }
            }
        }
        let mut out = vec![];
        let mut cur = b;
        while cur != a {
            let (p, f, fwd) = prev[cur].expect("tree path");
            out.push((f, fwd));
            cur = p;
        }
        out.reverse();
        out
    }
    /// for each tree edge f=(l->r): vertex-index membership of the side containing l after removing f
    pub fn tree_cut_sides(&self, tree: u64) -> Vec<Option<Vec<bool>>> {
        let idx = self.vidx();
        (0..self.ne())
            .map(|f| {
                if tree >> f & 1 == 0 {
                    return None;
                }
                let roots = self.roots(tree & !(1u64 << f));
                let rl = roots[idx[&self.edges[f].0]];
                Some(roots.iter().map(|r| *r == rl).collect())
            })
            .collect()
    }
    pub fn ext_index(&self) -> Vec<usize> {
        let idx = self.vidx();
        self.externals.iter().map(|v| idx[v]).collect()
    }
}

/// first Symanzik polynomial at x
pub fn u_poly<T: Scalar>(g: &OGraph, x: &[T]) -> T {
    let mut acc = T::rat(0, 1);
    for t in g.spanning_trees() {
        let mut m = T::rat(1, 1);
        for e in 0..g.ne() {
            if t >> e & 1 == 0 {
                m = m * x[e];
            }
        }
        acc = acc + m;
    }
    acc
}

/// second Symanzik polynomial F = sum_{2-forests} (P_{T1})^2 prod_{e not in F} x_e + U sum m_e^2 x_e.
/// `pin[v]` = incoming external momentum at vertex index v (zero vector if not external).
pub fn f_poly<T: Scalar>(g: &OGraph, x: &[T], pin: &[Vec<T>], m2: &[T]) -> T {
    let mut acc = T::rat(0, 1);
    for (fm, side) in g.two_forests() {
        let dim = pin[0].len();
        let mut s = T::rat(0, 1);
        for d in 0..dim {
            let mut c = T::rat(0, 1);
            for (v, inside) in side.iter().enumerate() {
                if *inside {
                    c = c + pin[v][d];
                }
            }
            s = s + c * c;
        }
        let mut m = s;
        for e in 0..g.ne() {
            if fm >> e & 1 == 0 {
                m = m * x[e];
            }
        }
        acc = acc + m;
    }
    let mut ms = T::rat(0, 1);
    for e in 0..g.ne() {
        ms = ms + m2[e] * x[e];
    }
    acc + u_poly(g, x) * ms
}

/// edge shifts conserving momentum for incoming momenta `pin` (tree flow), plus loop offsets
pub fn shifts<T: Scalar>(g: &OGraph, tree: u64, sig: &[Vec<isize>], pin: &[Vec<T>], offsets: &[Vec<T>]) -> Vec<Vec<T>> {
    let dim = pin[0].len();
    let sides = g.tree_cut_sides(tree);
    (0..g.ne())
        .map(|e| {
            (0..dim)
                .map(|d| {
                    let mut s = T::rat(0, 1);
                    if let Some(side) = &sides[e] {
                        for (v, inside) in side.iter().enumerate() {
                            if *inside {
                                s = s + pin[v][d];
                            }
                        }
                    }
                    for (c, off) in offsets.iter().enumerate() {
                        if sig[e][c] != 0 {
                            s = s + T::rat(sig[e][c] as i64, 1) * off[d];
                        }
                    }
                    s
                })
                .collect()
        })
        .collect()
}

/// adjugate (transpose of the cofactor matrix): inverse = adjugate / det
pub fn adjugate<T: Scalar>(m: &[Vec<T>]) -> Vec<Vec<T>> {
    let n = m.len();
    let mut out = vec![vec![T::rat(0, 1); n]; n];
    for i in 0..n {
        for j in 0..n {
            // cofactor C_ji: delete row j, column i
            let sub: Vec<Vec<T>> = (0..n).filter(|r| *r != j).map(|r| (0..n).filter(|c| *c != i).map(|c| m[r][c]).collect()).collect();
            let d = det(&sub);
            out[i][j] = if (i + j) % 2 == 0 { d } else { -d };
        }
    }
    out
}

/// specification of the L matrix: sum_e x_e s_ei s_ej
pub fn l_spec<T: Scalar>(sig: &[Vec<isize>], x: &[T]) -> Vec<Vec<T>> {
    let l = sig[0].len();
    (0..l)
        .map(|i| {
            (0..l)
                .map(|j| {
                    let mut acc = T::rat(0, 1);
                    for e in 0..sig.len() {
                        let c = sig[e][i] * sig[e][j];
                        if c != 0 {
                            acc = acc + T::rat(c as i64, 1) * x[e];
                        }
                    }
                    acc
                })
                .collect()
        })
        .collect()
}

/// exact J function of every subset (recursion J(g) = sum_e J(g\e)/omega(g\e), J(empty)=1)
pub fn j_table(g: &OGraph, d: usize) -> Vec<BigRational> {
    let n = g.ne();
    let mut j = vec![BigRational::zero(); 1 << n];
    j[0] = BigRational::one();
    for m in 1u64..(1u64 << n) {
        let mut acc = BigRational::zero();
        for e in 0..n {
            if m >> e & 1 == 1 {
                let sub = m & !(1u64 << e);
                acc += &j[sub as usize] / g.omega(sub, d);
            }
        }
        j[m as usize] = acc;
    }
    j
}

/// exact cumulative edge probabilities of subgraph `mask`: (edge, c_k) in index order
pub fn edge_cdf(g: &OGraph, d: usize, j: &[BigRational], mask: u64) -> Vec<(usize, BigRational)> {
    let mut out = vec![];
    let mut acc = BigRational::zero();
    for e in 0..g.ne() {
        if mask >> e & 1 == 1 {
            let sub = mask & !(1u64 << e);
            acc += &j[sub as usize] / (&j[mask as usize] * g.omega(sub, d));
            out.push((e, acc.clone()));
        }
    }
    out
}

// ---------------------------------------------------------------------------------------------
// monomials of the Symanzik polynomials

/// exponent vectors of the monomials of U (one per spanning tree: the edges outside the tree)
pub fn u_monomials(g: &OGraph) -> Vec<Vec<u8>> {
    g.spanning_trees().into_iter().map(|t| (0..g.ne()).map(|e| if t >> e & 1 == 0 { 1 } else { 0 }).collect()).collect()
}

/// exponent vectors of the monomials of F for generic kinematics: 2-forests that split the external
/// vertices non-trivially, and (U monomial) * x_e for every massive edge e
pub fn f_monomials_generic(g: &OGraph) -> Vec<Vec<u8>> {
    let mut out: Vec<Vec<u8>> = vec![];
    let ext = g.ext_index();
    for (fm, side) in g.two_forests() {
        let inside = ext.iter().filter(|v| side[**v]).count();
        if inside == 0 || inside == ext.len() {
            continue;
        }
        out.push((0..g.ne()).map(|e| if fm >> e & 1 == 0 { 1 } else { 0 }).collect());
    }
    for um in u_monomials(g) {
        for e in 0..g.ne() {
            if g.massive[e] {
                let mut m = um.clone();
                m[e] += 1;
                out.push(m);
            }
        }
    }
    out.sort();
    out.dedup();
    out
}

/// F for fixed rational kinematics as monomial -> coefficient (zero coefficients dropped)
pub fn f_monomials_rational(g: &OGraph, pin: &[Vec<BigRational>], m2: &[BigRational]) -> Vec<(Vec<u8>, BigRational)> {
    let mut map: std::collections::BTreeMap<Vec<u8>, BigRational> = std::collections::BTreeMap::new();
    for (fm, side) in g.two_forests() {
        let mut s = BigRational::zero();
        for d in 0..pin[0].len() {
            let mut c = BigRational::zero();
            for (v, inside) in side.iter().enumerate() {
                if *inside {
                    c += &pin[v][d];
                }
            }
            s += &c * &c;
        }
        if s.is_zero() {
            continue;
        }
        let mono: Vec<u8> = (0..g.ne()).map(|e| if fm >> e & 1 == 0 { 1 } else { 0 }).collect();
        *map.entry(mono).or_insert_with(BigRational::zero) += s;
    }
    for um in u_monomials(g) {
        for e in 0..g.ne() {
            if !m2[e].is_zero() {
                let mut m = um.clone();
                m[e] += 1;
                *map.entry(m).or_insert_with(BigRational::zero) += &m2[e];
            }
        }
    }
    map.into_iter().filter(|(_, c)| !c.is_zero()).collect()
}

/// value of a monomial at x
pub fn monomial<T: Scalar>(m: &[u8], x: &[T]) -> T {
    let mut acc = T::rat(1, 1);
    for (e, k) in m.iter().enumerate() {
        for _ in 0..*k {
            acc = acc * x[e];
        }
    }
    acc
}

/// the monomial that dominates all others when x_{order[0]} >= x_{order[1]} >= ... with arbitrary gaps:
/// sorted list of removal ranks (with multiplicity), lexicographically smallest
pub fn dominant(monos: &[Vec<u8>], order: &[usize]) -> usize {
    let mut rank = vec![0usize; order.len()];
    for (r, e) in order.iter().enumerate() {
        rank[*e] = r;
    }
    let key = |m: &Vec<u8>| -> Vec<usize> {
        let mut v = vec![];
        for (e, k) in m.iter().enumerate() {
            for _ in 0..*k {
                v.push(rank[e]);
            }
        }
        v.sort();
        v
    };
    let mut best = 0;
    for i in 1..monos.len() {
        if key(&monos[i]) < key(&monos[best]) {
            best = i;
        }
    }
    best
}

/// product of the Cholesky pivots (textbook recursion, written independently of momtrop)
pub fn cholesky_pivot_product<T: Scalar>(m: &[Vec<T>]) -> T {
    let n = m.len();
    let zero = T::lit(0.0);
    let mut q = vec![vec![zero; n]; n];
    let mut prod = T::lit(1.0);
    for i in 0..n {
        let mut d = m[i][i];
        for j in 0..i {
            d = d - q[i][j] * q[i][j];
        }
        let piv = momtrop::float::MomTropFloat::sqrt(&d);
        q[i][i] = piv;
        prod = prod * piv;
        for j in i + 1..n {
            let mut e = m[i][j];
            for k in 0..i {
                e = e - q[i][k] * q[j][k];
            }
            q[j][i] = e / piv;
        }
    }
    prod
}
