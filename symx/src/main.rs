use symx::framework::*;
use symx::props;

fn main() {
    let args: Vec<String> = std::env::args().collect();
    let prop = args.get(1).cloned().unwrap_or_default();
    let mut tier = Tier::Quick;
    let mut out = String::new();
    let mut replay: Option<String> = None;
    let mut i = 2;
    while i < args.len() {
        match args[i].as_str() {
            "--tier" => {
                tier = if args[i + 1] == "thorough" { Tier::Thorough } else { Tier::Quick };
                i += 1;
            }
            "--out" => {
                out = args[i + 1].clone();
                i += 1;
            }
            "--replay" => {
                replay = Some(args[i + 1].clone());
                i += 1;
            }
            _ => {}
        }
        i += 1;
    }
    let seed: u64 = std::env::var("VERIF_SEED").ok().and_then(|s| s.parse().ok()).unwrap_or(0);
    let cfg = RunCfg { tier, seed, solver: std::env::var("SYMX_SOLVER").unwrap_or_else(|_| "z3".into()) };
    symx::explore::quiet_panics();
    // native helpers used by the driver to replay counterexamples of the other engines
    if prop == "native-float" {
        use momtrop::float::MomTropFloat;
        let f = args[2].as_str();
        let b = |i: usize| f64::from_bits(u64::from_str_radix(&args[i], 16).unwrap());
        let x = b(3);
        let r: f64 = match f {
            "ln" => MomTropFloat::ln(&x),
            "exp" => MomTropFloat::exp(&x),
            "cos" => MomTropFloat::cos(&x),
            "sin" => MomTropFloat::sin(&x),
            "powf" => MomTropFloat::powf(&x, &b(4)),
            "from_f64" => x.from_f64(b(4)),
            "from_isize" => x.from_isize(u64::from_str_radix(&args[4], 16).unwrap() as i64 as isize),
            "sqrt" => MomTropFloat::sqrt(&x),
            "inv" => x.inv(),
            "to_f64" => x.to_f64(),
            "PI" => x.PI(),
            "zero" => MomTropFloat::zero(&x),
            "one" => MomTropFloat::one(&x),
            "abs" => MomTropFloat::abs(&x),
            _ => std::process::exit(2),
        };
        println!("{:016x}", r.to_bits());
        return;
    }
    if prop == "catalogue" {
        for e in symx::catalogue::catalogue() {
            for d in 1..=6usize {
                let sig: Vec<Vec<isize>> = vec![vec![0; e.ograph().num_loops().max(1)]; e.ne()];
                let ok = match d {
                    1 => e.graph().build_sampler::<1>(sig).is_ok(),
                    2 => e.graph().build_sampler::<2>(sig).is_ok(),
                    3 => e.graph().build_sampler::<3>(sig).is_ok(),
                    4 => e.graph().build_sampler::<4>(sig).is_ok(),
                    5 => e.graph().build_sampler::<5>(sig).is_ok(),
                    _ => e.graph().build_sampler::<6>(sig).is_ok(),
                };
                let dod = e.ograph().dod(d);
                let listed = e.dims.contains(&d);
                if ok && dod > num::BigRational::from_integer(0.into()) || listed {
                    println!("{} D={} accepted={} dod={} listed={}", e.name, d, ok, dod, listed);
                }
            }
        }
        return;
    }
    if prop == "probe-necklace" {
        for wn in [5i64, 6, 7, 8, 9, 10, 12] {
            for mass in [vec![], vec![4usize], vec![0], vec![0, 2], vec![0, 2, 4]] {
                for ext in [vec![0u8, 2], vec![0, 1], vec![0, 1, 2], vec![1]] {
                    for d in 1..=4usize {
                        let edges: Vec<momtrop::Edge> = [(0u8, 1u8), (0, 1), (1, 2), (1, 2), (2, 0)].iter().enumerate().map(|(i, v)| momtrop::Edge { vertices: *v, is_massive: mass.contains(&i), weight: wn as f64 / 8.0 }).collect();
                        let g = momtrop::Graph { edges, externals: ext.clone() };
                        let sig = vec![vec![0isize; 3]; 5];
                        let ok = match d { 1 => g.build_sampler::<1>(sig).map(|s| s.get_dod()), 2 => g.build_sampler::<2>(sig).map(|s| s.get_dod()), 3 => g.build_sampler::<3>(sig).map(|s| s.get_dod()), _ => g.build_sampler::<4>(sig).map(|s| s.get_dod()) };
                        if let Ok(dod) = ok { if dod > 0.0 { println!("w={}/8 mass={:?} ext={:?} D={} dod={}", wn, mass, ext, d, dod); } }
                    }
                }
            }
        }
        return;
    }
    if prop == "native-gamma" {
        let a: f64 = args[2].parse().unwrap();
        let p: f64 = args[3].parse().unwrap();
        match momtrop::gamma::inverse_gamma_lr(&a, &p, 50, &5.0) {
            Ok(v) => println!("ok {:016x} {:e}", v.to_bits(), v),
            Err(_) => println!("err"),
        }
        return;
    }
    if prop == "native-size" {
        let n: usize = args[2].parse().unwrap();
        let r = std::panic::catch_unwind(|| {
            // n parallel edges: the graph routines stay cheap, only the size matters
            let edges = (0..n).map(|_| momtrop::Edge { vertices: (0, 1), is_massive: false, weight: 1.0 }).collect();
            let g = momtrop::Graph { edges, externals: vec![0] };
            g.build_sampler::<3>(vec![vec![0]; n]).is_ok()
        });
        println!("{}", match r { Ok(true) => "ok", Ok(false) => "err", Err(_) => "panic" });
        return;
    }
    if let Some(r) = replay {
        std::process::exit(props::replay(&prop, &r));
    }
    let res = match prop.as_str() {
        "C02" => props::c02::run(&cfg),
        "C03" => props::c03::run(&cfg, props::c03::What::C03),
        "C04" => props::c03::run(&cfg, props::c03::What::C04),
        "C05" => props::c03::run(&cfg, props::c03::What::C05),
        "C06" => props::c06::run(&cfg),
        "C07" => props::c07::run(&cfg),
        "C08" => props::c08::run(&cfg),
        "C09" => props::c09::run(&cfg),
        "C10" => props::c10::run(&cfg),
        "C11" => props::c11::run(&cfg),
        "C13" => props::c13::run(&cfg),
        "C14" => props::c14::run(&cfg),
        "C15" => props::c15::run(&cfg),
        "C16" => props::c16::run(&cfg),
        "C17" => props::c17::run(&cfg),
        "C18" => props::c18::run(&cfg),
        "C19" => props::c19::run(&cfg),
        "C20" => props::c20::run(&cfg),
        _ => {
            eprintln!("unknown property {}", prop);
            std::process::exit(2);
        }
    };
    let js = serde_json::to_string_pretty(&res).unwrap();
    if out.is_empty() {
        println!("{}", js);
    } else {
        std::fs::write(&out, js).unwrap();
    }
    eprintln!(
        "{}: paths {} (feasible {}), queries {} (distinct {}): unsat {} sat {} inconclusive {}; goals proved {}, definedness {}, twins {}/{}, validations {}, violations {}, solver {:.1}s wall {:.1}s",
        res.part, res.paths_syntactic, res.paths_feasible, res.queries_total, res.queries_distinct, res.queries_unsat, res.queries_sat, res.queries_inconclusive,
        res.goals_proved, res.definedness_proved, res.twins_refuted, res.twins_expected, res.validations, res.violations.len(), res.solver_s, res.wall_s
    );
    for s in res.inconclusive.iter().take(10) {
        eprintln!("  inconclusive: {}", s);
    }
    for s in res.hard_failures.iter().take(10) {
        eprintln!("  HARD: {}", s);
    }
    for v in res.violations.iter().take(10) {
        eprintln!("  violation: {} {} {}", v.goal, v.site, v.desc);
    }
}
