use symx::framework::*;
use symx::props;

fn main() {
    let args: Vec<String> = std::env::args().collect();
    let prop = args.get(1).cloned().unwrap_or_default();
    let mut tier = Tier::Quick;
    let mut out = String::new();
    let mut replay: Option<String> = None;
    let mut i = 2;
    while i < args.len() {
        match args[i].as_str() {
            "--tier" => {
                tier = if args[i + 1] == "thorough" { Tier::Thorough } else { Tier::Quick };
                i += 1;
            }
            "--out" => {
                out = args[i + 1].clone();
                i += 1;
            }
            "--replay" => {
                replay = Some(args[i + 1].clone());
                i += 1;
            }
            _ => {}
        }
        i += 1;
    }
    let seed: u64 = std::env::var("VERIF_SEED").ok().and_then(|s| s.parse().ok()).unwrap_or(0);
    let cfg = RunCfg { tier, seed, solver: std::env::var("SYMX_SOLVER").unwrap_or_else(|_| "z3".into()) };
    symx::explore::quiet_panics();
    if let Some(r) = replay {
        std::process::exit(props::replay(&prop, &r));
    }
    let res = match prop.as_str() {
        "C02" => props::c02::run(&cfg),
        "C06" => props::c06::run(&cfg),
        "C07" => props::c07::run(&cfg),
        "C08" => props::c08::run(&cfg),
        "C09" => props::c09::run(&cfg),
        "C10" => props::c10::run(&cfg),
        "C11" => props::c11::run(&cfg),
        "C13" => props::c13::run(&cfg),
        "C14" => props::c14::run(&cfg),
        "C15" => props::c15::run(&cfg),
        "C16" => props::c16::run(&cfg),
        "C17" => props::c17::run(&cfg),
        "C18" => props::c18::run(&cfg),
        "C19" => props::c19::run(&cfg),
        _ => {
            eprintln!("unknown property {}", prop);
            std::process::exit(2);
        }
    };
    let js = serde_json::to_string_pretty(&res).unwrap();
    if out.is_empty() {
        println!("{}", js);
    } else {
        std::fs::write(&out, js).unwrap();
    }
    eprintln!(
        "{}: paths {} (feasible {}), queries {} (distinct {}): unsat {} sat {} inconclusive {}; goals proved {}, definedness {}, twins {}/{}, validations {}, violations {}, solver {:.1}s wall {:.1}s",
        res.part, res.paths_syntactic, res.paths_feasible, res.queries_total, res.queries_distinct, res.queries_unsat, res.queries_sat, res.queries_inconclusive,
        res.goals_proved, res.definedness_proved, res.twins_refuted, res.twins_expected, res.validations, res.violations.len(), res.solver_s, res.wall_s
    );
    for s in res.inconclusive.iter().take(10) {
        eprintln!("  inconclusive: {}", s);
    }
    for s in res.hard_failures.iter().take(10) {
        eprintln!("  HARD: {}", s);
    }
    for v in res.violations.iter().take(10) {
        eprintln!("  violation: {} {} {}", v.goal, v.site, v.desc);
    }
}
