//! The catalogue of graphs every sampling check is bounded by (DESIGN §5).
use crate::framework::Tier;
use crate::oracle::OGraph;
use num::rational::BigRational;

#[derive(Clone, Debug)]
pub struct Entry {
    pub name: &'static str,
    /// (left, right, massive, weight numerator, weight denominator)
    pub edges: Vec<(u8, u8, bool, i64, i64)>,
    pub externals: Vec<u8>,
    pub dims: Vec<usize>,
    pub tier: Tier,
    /// non-dyadic weights: only for checks whose exponents never reach the solver
    pub rounding: bool,
}

impl Entry {
    pub fn ograph(&self) -> OGraph {
        OGraph {
            edges: self.edges.iter().map(|e| (e.0, e.1)).collect(),
            massive: self.edges.iter().map(|e| e.2).collect(),
            weights: self.edges.iter().map(|e| BigRational::new(e.3.into(), e.4.into())).collect(),
            externals: self.externals.clone(),
        }
    }
    pub fn graph(&self) -> momtrop::Graph {
        momtrop::Graph {
            edges: self
                .edges
                .iter()
                .map(|e| momtrop::Edge { vertices: (e.0, e.1), is_massive: e.2, weight: e.3 as f64 / e.4 as f64 })
                .collect(),
            externals: self.externals.clone(),
        }
    }
    pub fn ne(&self) -> usize {
        self.edges.len()
    }
}

fn cyc(n: u8) -> Vec<(u8, u8)> {
    (0..n).map(|i| (i, (i + 1) % n)).collect()
}
fn mk(name: &'static str, e: Vec<(u8, u8)>, w: &[(i64, i64)], massive: &[usize], ext: &[u8], dims: &[usize], tier: Tier) -> Entry {
    Entry {
        name,
        edges: e.iter().enumerate().map(|(i, (a, b))| (*a, *b, massive.contains(&i), w[i % w.len()].0, w[i % w.len()].1)).collect(),
        externals: ext.to_vec(),
        dims: dims.to_vec(),
        tier,
        rounding: false,
    }
}

pub fn catalogue() -> Vec<Entry> {
    use Tier::*;
    let kite = vec![(0, 2), (0, 3), (2, 3), (2, 1), (3, 1)];
    let mercedes = vec![(0, 1), (1, 2), (2, 0), (0, 3), (1, 3), (2, 3)];
    let mut v = vec![
        mk("bubble-a", vec![(0, 1), (0, 1)], &[(1, 1)], &[1], &[0, 1], &[3], Quick),
        mk("bubble-b", vec![(0, 1), (0, 1)], &[(3, 4), (1, 2)], &[1], &[0, 1], &[2], Quick),
        mk("bubble-c", vec![(0, 1), (0, 1)], &[(3, 8)], &[], &[0, 1], &[1], Quick),
        mk("triangle-a", cyc(3), &[(1, 1)], &[], &[0, 1, 2], &[3, 4, 5], Quick),
        mk("triangle-b", cyc(3), &[(1, 1), (3, 4), (1, 2)], &[0], &[0, 1, 2], &[2, 3, 4], Quick),
        mk("triangle-c", cyc(3), &[(1, 1), (3, 4), (3, 4)], &[1], &[0, 1], &[3, 4], Quick),
        mk("sunrise-a", vec![(0, 1), (0, 1), (0, 1)], &[(1, 1), (5, 4), (5, 4)], &[0], &[0, 1], &[3], Quick),
        mk("sunrise-b", vec![(0, 1), (0, 1), (0, 1)], &[(3, 4)], &[0], &[0, 1], &[2], Quick),
        mk("box-a", cyc(4), &[(1, 1)], &[1, 3], &[0, 1, 2, 3], &[3, 4, 5, 6], Quick),
        mk("box-b", cyc(4), &[(3, 4)], &[], &[0, 1, 2, 3], &[2, 3, 4, 5], Quick),
        mk("dunce", vec![(0, 1), (0, 1), (1, 2), (2, 0)], &[(3, 4)], &[2], &[0, 2], &[2], Quick),
        mk("kite-a", kite.clone(), &[(1, 2)], &[4], &[0, 1], &[2], Thorough),
        mk("kite-b", kite.clone(), &[(3, 4)], &[4], &[0, 1], &[3], Thorough),
        mk("kite-c", kite.clone(), &[(1, 2), (3, 4), (1, 2), (3, 4), (1, 2)], &[3], &[0, 1], &[2], Thorough),
        mk("pentagon", cyc(5), &[(3, 4)], &[2], &[0, 1, 2, 3, 4], &[2, 3, 4, 5, 6], Thorough),
        mk("banana3", vec![(0, 1); 4], &[(7, 8)], &[0], &[0, 1], &[2], Quick),
        // three loops with a sparse L matrix: two bubbles hanging on a triangle (cycles that share no edge)
        mk("necklace3", vec![(0, 1), (0, 1), (1, 2), (1, 2), (2, 0)], &[(5, 8)], &[4], &[0, 2], &[2], Quick),
        mk("banana4", vec![(0, 1); 5], &[(7, 8)], &[0], &[0, 1], &[2], Thorough),
        mk("banana5", vec![(0, 1); 6], &[(7, 8)], &[0], &[0, 1], &[2], Thorough),
        mk("mercedes", mercedes.clone(), &[(7, 8)], &[5], &[0, 1, 2], &[2, 3], Thorough),
    ];
    // rounding section: non-dyadic weights (bit-precise C06, term-equality checks C17/C18)
    let mut r = vec![
        mk("r-triangle-2/3", cyc(3), &[(2, 3)], &[], &[0, 1, 2], &[3], Quick),
        mk("r-kite-0.7", kite.clone(), &[(7, 10)], &[], &[0, 1], &[3], Quick),
        // non-dyadic mixed weights: running sums of several proper subgraphs end below 1
        mk("r-kite-mixed", kite, &[(4, 5), (11, 20), (11, 10), (3, 4), (11, 20)], &[], &[0, 1], &[3], Quick),
        mk("r-mercedes-0.66", mercedes, &[(33, 50)], &[], &[0, 1, 2], &[2], Thorough),
    ];
    for e in r.iter_mut() {
        e.rounding = true;
    }
    v.extend(r);
    v
}

/// entries for a tier (thorough includes quick)
pub fn entries(tier: Tier, rounding: bool) -> Vec<Entry> {
    catalogue().into_iter().filter(|e| (e.tier == Tier::Quick || tier == Tier::Thorough) && e.rounding == rounding).collect()
}

/// L-loop banana accepted at dimension D: all weights w with L*D/(2(L+1)) < w < D/2
/// (w = D(2L+1)/(4(L+1))), one massive edge, externals {0,1}
pub fn banana(l: usize, d: usize) -> Entry {
    let num = (d * (2 * l + 1)) as i64;
    let den = (4 * (l + 1)) as i64;
    let g = num::integer::gcd(num, den);
    Entry {
        name: Box::leak(format!("banana(L={},D={})", l, d).into_boxed_str()),
        edges: (0..=l).map(|i| (0u8, 1u8, i == 0, num / g, den / g)).collect(),
        externals: vec![0, 1],
        dims: vec![d],
        tier: Tier::Quick,
        rounding: true,
    }
}

/// a catalogue graph with the same number of edges and an accepted dimension `d` but a different loop number
/// (used to put another sampler into the call history)
pub fn partner(entry: &Entry, d: usize) -> Option<Entry> {
    let l = entry.ograph().num_loops();
    let cat: Vec<Entry> = catalogue().into_iter().filter(|e| !e.rounding && e.dims.contains(&d) && e.ograph().connected() && e.name != entry.name).collect();
    // preferably the same number of edges and a different loop number; otherwise any graph with another degree of divergence
    cat.iter()
        .find(|e| e.ne() == entry.ne() && e.ograph().num_loops() != l)
        .or_else(|| cat.iter().find(|e| e.ne() <= 4 && e.ograph().dod(d) != entry.ograph().dod(d)))
        .cloned()
}
