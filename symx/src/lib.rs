pub mod explore;
pub mod framework;
pub mod oracle;
pub mod props;
pub mod scalar;
pub mod smt;
pub mod sym;
