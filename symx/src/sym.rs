//! Term-building scalar. Instantiating momtrop's generic code with `Sym`
//! executes it symbolically: arithmetic builds a hash-consed term DAG in a
//! thread-local arena, every comparison on non-constant terms records an atom
//! and takes the outcome dictated by the current decision prefix.
//!
//! Two interpretations (chosen per run, `Mode`):
//!  * `Real`: constants are exact rationals, `x*1`, `x+0`, `0*x`, `x/1` fold;
//!  * `Fp`:   constants are IEEE binary64 bit patterns, constant (+) constant is
//!            folded with the native f64 operation, nothing else is rewritten.
use momtrop::float::MomTropFloat;
use num::bigint::BigInt;
use num::rational::BigRational;
use num::{One, Signed, ToPrimitive, Zero};
use std::cell::RefCell;
use std::cmp::Ordering;
use std::collections::HashMap;
use std::fmt;
use std::ops::*;

#[derive(Clone, Copy, Debug, PartialEq, Eq)]
pub enum Mode {
    Real,
    Fp,
}

#[derive(Clone, Debug, PartialEq, Eq, Hash)]
pub enum Node {
    Var(String),
    Const(BigRational),
    /// IEEE binary64 constant (Fp mode)
    CF(u64),
    Pi,
    Add(u32, u32),
    Sub(u32, u32),
    Mul(u32, u32),
    Div(u32, u32),
    Neg(u32),
    Sqrt(u32),
    Abs(u32),
    /// base ^ (p/q), exponent constant (Real mode)
    Pow(u32, BigRational),
    /// powf(base, exponent) with exponent a node (Fp mode)
    PowF(u32, u32),
    Ln(u32),
    Exp(u32),
    Cos(u32),
    Sin(u32),
    /// opaque f64 computation of narrowed arguments (to_f64 ... from_f64);
    /// the u64 is the bit pattern the real code produced for the placeholder inputs
    Narrow(Vec<u32>, u64),
}

#[derive(Clone, Debug, PartialEq, Eq, Hash)]
pub enum Atom {
    Lt(u32, u32),
    Le(u32, u32),
    Eq(u32, u32),
}

impl Atom {
    pub fn nodes(&self) -> [u32; 2] {
        match self {
            Atom::Lt(x, y) | Atom::Le(x, y) | Atom::Eq(x, y) => [*x, *y],
        }
    }
}

pub struct Ctx {
    pub mode: Mode,
    pub nodes: Vec<Node>,
    pub index: HashMap<Node, u32>,
    pub prefix: Vec<bool>,
    pub taken: Vec<(Atom, bool)>,
    /// ids narrowed by `to_f64` since the last other Sym operation
    pub pending_narrow: Vec<u32>,
    /// every `to_f64` on a non-constant term, in order
    pub to_f64_log: Vec<u32>,
    /// (arguments, result node) of each narrowing `from_f64`
    pub narrow_events: Vec<(Vec<u32>, u32)>,
    /// every constant that entered through from_f64 (bit pattern)
    pub from_f64_consts: Vec<u64>,
    /// value returned by to_f64 on a symbolic term
    pub placeholder: f64,
    /// rng-tag mode: from_f64(k * 2^-53), 1 <= k <= rng_tags, becomes Var(x{k-1})
    pub rng_tags: usize,
    /// per node: does its cone contain a variable or an opaque narrowing? (lazy cache)
    pub has_var: Vec<Option<bool>>,
}

impl Default for Ctx {
    fn default() -> Self {
        Ctx {
            mode: Mode::Real,
            nodes: vec![],
            index: HashMap::new(),
            prefix: vec![],
            taken: vec![],
            pending_narrow: vec![],
            to_f64_log: vec![],
            narrow_events: vec![],
            from_f64_consts: vec![],
            placeholder: 0.5,
            rng_tags: 0,
            has_var: vec![],
        }
    }
}

thread_local! { pub static CTX: RefCell<Ctx> = RefCell::new(Ctx::default()); }

#[derive(Clone, Copy, PartialEq, Eq, Hash)]
pub struct SymId(pub u32);

#[derive(Clone, Copy)]
pub struct Sym(pub u32);

impl fmt::Debug for Sym {
    fn fmt(&self, f: &mut fmt::Formatter<'_>) -> fmt::Result {
        write!(f, "n{}", self.0)
    }
}

pub fn mode() -> Mode {
    CTX.with(|c| c.borrow().mode)
}

fn mk(n: Node) -> Sym {
    CTX.with(|c| {
        let mut c = c.borrow_mut();
        c.pending_narrow.clear();
        if let Some(&i) = c.index.get(&n) {
            return Sym(i);
        }
        c.nodes.push(n.clone());
        let i = (c.nodes.len() - 1) as u32;
        c.index.insert(n, i);
        Sym(i)
    })
}
pub fn get(i: u32) -> Node {
    CTX.with(|c| c.borrow().nodes[i as usize].clone())
}
pub fn cst(i: u32) -> Option<BigRational> {
    if let Node::Const(r) = get(i) {
        Some(r)
    } else {
        None
    }
}
pub fn cf(i: u32) -> Option<f64> {
    if let Node::CF(b) = get(i) {
        Some(f64::from_bits(b))
    } else {
        None
    }
}
pub fn is_const(i: u32) -> bool {
    matches!(get(i), Node::Const(_) | Node::CF(_))
}
pub fn konst(r: BigRational) -> Sym {
    match mode() {
        Mode::Real => mk(Node::Const(r)),
        Mode::Fp => kf(r.to_f64().unwrap()),
    }
}
pub fn kf(v: f64) -> Sym {
    match mode() {
        Mode::Fp => mk(Node::CF(v.to_bits())),
        Mode::Real => mk(Node::Const(
            BigRational::from_float(v).expect("symx: non-finite constant in Real mode"),
        )),
    }
}
pub fn var(name: &str) -> Sym {
    mk(Node::Var(name.to_string()))
}
pub fn rat(n: i64, d: i64) -> BigRational {
    BigRational::new(BigInt::from(n), BigInt::from(d))
}

fn bin(op: u8, a: Sym, b: Sym) -> Sym {
    if mode() == Mode::Fp {
        if let (Some(x), Some(y)) = (cf(a.0), cf(b.0)) {
            return kf(match op {
                0 => x + y,
                1 => x - y,
                2 => x * y,
                _ => x / y,
            });
        }
        return mk(match op {
            0 => Node::Add(a.0, b.0),
            1 => Node::Sub(a.0, b.0),
            2 => Node::Mul(a.0, b.0),
            _ => Node::Div(a.0, b.0),
        });
    }
    let (ca, cb) = (cst(a.0), cst(b.0));
    if let (Some(x), Some(y)) = (&ca, &cb) {
        if op == 3 && y.is_zero() {
            return mk(Node::Div(a.0, b.0));
        }
        return konst(match op {
            0 => x + y,
            1 => x - y,
            2 => x * y,
            _ => x / y,
        });
    }
    let z = |c: &Option<BigRational>| c.as_ref().map_or(false, |x| x.is_zero());
    let o = |c: &Option<BigRational>| c.as_ref().map_or(false, |x| x.is_one());
    match op {
        0 => {
            if z(&ca) {
                return touch(b);
            }
            if z(&cb) {
                return touch(a);
            }
            mk(Node::Add(a.0, b.0))
        }
        1 => {
            if z(&cb) {
                return touch(a);
            }
            mk(Node::Sub(a.0, b.0))
        }
        2 => {
            if o(&ca) {
                return touch(b);
            }
            if o(&cb) {
                return touch(a);
            }
            if z(&ca) || z(&cb) {
                return konst(BigRational::zero());
            }
            mk(Node::Mul(a.0, b.0))
        }
        _ => {
            if o(&cb) {
                return touch(a);
            }
            mk(Node::Div(a.0, b.0))
        }
    }
}
/// an operation happened even though no node was created: clears the pending-narrow list
fn touch(a: Sym) -> Sym {
    CTX.with(|c| c.borrow_mut().pending_narrow.clear());
    a
}

macro_rules! binop {
    ($tr:ident, $f:ident, $op:expr) => {
        impl $tr<Sym> for Sym {
            type Output = Sym;
            fn $f(self, r: Sym) -> Sym {
                bin($op, self, r)
            }
        }
        impl<'a> $tr<&'a Sym> for Sym {
            type Output = Sym;
            fn $f(self, r: &Sym) -> Sym {
                bin($op, self, *r)
            }
        }
        impl<'a> $tr<Sym> for &'a Sym {
            type Output = Sym;
            fn $f(self, r: Sym) -> Sym {
                bin($op, *self, r)
            }
        }
        impl<'a, 'b> $tr<&'b Sym> for &'a Sym {
            type Output = Sym;
            fn $f(self, r: &Sym) -> Sym {
                bin($op, *self, *r)
            }
        }
    };
}
binop!(Add, add, 0);
binop!(Sub, sub, 1);
binop!(Mul, mul, 2);
binop!(Div, div, 3);
impl<'a> AddAssign<&'a Sym> for Sym {
    fn add_assign(&mut self, r: &Sym) {
        *self = bin(0, *self, *r)
    }
}
impl<'a> SubAssign<&'a Sym> for Sym {
    fn sub_assign(&mut self, r: &Sym) {
        *self = bin(1, *self, *r)
    }
}
impl<'a> MulAssign<&'a Sym> for Sym {
    fn mul_assign(&mut self, r: &Sym) {
        *self = bin(2, *self, *r)
    }
}
fn neg(a: Sym) -> Sym {
    if let Some(x) = cst(a.0) {
        return konst(-x);
    }
    if let Some(x) = cf(a.0) {
        return kf(-x);
    }
    mk(Node::Neg(a.0))
}
impl Neg for Sym {
    type Output = Sym;
    fn neg(self) -> Sym {
        neg(self)
    }
}
impl<'a> Neg for &'a Sym {
    type Output = Sym;
    fn neg(self) -> Sym {
        neg(*self)
    }
}

fn node_has_var(c: &mut Ctx, i: u32) -> bool {
    if c.has_var.len() < c.nodes.len() {
        c.has_var.resize(c.nodes.len(), None);
    }
    if let Some(b) = c.has_var[i as usize] {
        return b;
    }
    let kids: Vec<u32> = match &c.nodes[i as usize] {
        Node::Var(_) | Node::Narrow(..) => {
            c.has_var[i as usize] = Some(true);
            return true;
        }
        Node::Add(a, b) | Node::Sub(a, b) | Node::Mul(a, b) | Node::Div(a, b) | Node::PowF(a, b) => vec![*a, *b],
        Node::Neg(a) | Node::Sqrt(a) | Node::Abs(a) | Node::Pow(a, _) | Node::Ln(a) | Node::Exp(a) | Node::Cos(a) | Node::Sin(a) => vec![*a],
        _ => vec![],
    };
    let mut r = false;
    for k in kids {
        if node_has_var(c, k) {
            r = true;
            break;
        }
    }
    c.has_var[i as usize] = Some(r);
    r
}

/// decide a symbolic atom: follow the prefix, else take `true` and extend
fn decide(atom: Atom) -> bool {
    CTX.with(|c| {
        let mut c = c.borrow_mut();
        c.pending_narrow.clear();
        // closed terms (no variable in either cone, e.g. an irrational power of a constant): the comparison is
        // decided numerically when the two values are clearly separated, and no branch is recorded
        if c.mode == Mode::Real {
            let [l, r] = atom.nodes();
            if !node_has_var(&mut c, l) && !node_has_var(&mut c, r) {
                let env = |_: &str| f64::NAN;
                let nar = |_: &[f64], _: u64| f64::NAN;
                let (x, y) = (eval_f64(&c.nodes, l, &env, &nar), eval_f64(&c.nodes, r, &env, &nar));
                if x.is_finite() && y.is_finite() && (x - y).abs() > 1e-9 * (1.0 + x.abs().max(y.abs())) {
                    return match atom {
                        Atom::Lt(..) => x < y,
                        Atom::Le(..) => x <= y,
                        Atom::Eq(..) => false,
                    };
                }
            }
        }
        // the same atom has the same truth value throughout one execution
        if let Some((_, d)) = c.taken.iter().find(|(a, _)| *a == atom) {
            return *d;
        }
        let k = c.taken.len();
        let d = if k < c.prefix.len() { c.prefix[k] } else { true };
        c.taken.push((atom, d));
        d
    })
}
fn cmp_c(a: &Sym, b: &Sym) -> Option<Option<Ordering>> {
    match (get(a.0), get(b.0)) {
        (Node::Const(x), Node::Const(y)) => Some(Some(x.cmp(&y))),
        (Node::CF(x), Node::CF(y)) => Some(f64::from_bits(x).partial_cmp(&f64::from_bits(y))),
        _ => None,
    }
}
impl PartialEq for Sym {
    fn eq(&self, o: &Sym) -> bool {
        if let Some(c) = cmp_c(self, o) {
            return c == Some(Ordering::Equal);
        }
        if self.0 == o.0 && mode() == Mode::Real {
            return true;
        }
        decide(Atom::Eq(self.0, o.0))
    }
}
impl PartialOrd for Sym {
    fn partial_cmp(&self, o: &Sym) -> Option<Ordering> {
        if let Some(c) = cmp_c(self, o) {
            return c;
        }
        if decide(Atom::Lt(self.0, o.0)) {
            Some(Ordering::Less)
        } else if decide(Atom::Eq(self.0, o.0)) {
            Some(Ordering::Equal)
        } else if mode() == Mode::Real || decide(Atom::Lt(o.0, self.0)) {
            Some(Ordering::Greater)
        } else {
            None
        }
    }
    fn lt(&self, o: &Sym) -> bool {
        if let Some(c) = cmp_c(self, o) {
            return c == Some(Ordering::Less);
        }
        decide(Atom::Lt(self.0, o.0))
    }
    fn le(&self, o: &Sym) -> bool {
        if let Some(c) = cmp_c(self, o) {
            return matches!(c, Some(Ordering::Less) | Some(Ordering::Equal));
        }
        decide(Atom::Le(self.0, o.0))
    }
    fn gt(&self, o: &Sym) -> bool {
        if let Some(c) = cmp_c(self, o) {
            return c == Some(Ordering::Greater);
        }
        decide(Atom::Lt(o.0, self.0))
    }
    fn ge(&self, o: &Sym) -> bool {
        if let Some(c) = cmp_c(self, o) {
            return matches!(c, Some(Ordering::Greater) | Some(Ordering::Equal));
        }
        decide(Atom::Le(o.0, self.0))
    }
}

fn un(a: &Sym, f: fn(u32) -> Node) -> Sym {
    mk(f(a.0))
}

impl MomTropFloat for Sym {
    fn one(&self) -> Self {
        konst(BigRational::one())
    }
    fn zero(&self) -> Self {
        konst(BigRational::zero())
    }
    fn ln(&self) -> Self {
        if let Some(x) = cf(self.0) {
            return kf(x.ln());
        }
        if cst(self.0).map_or(false, |x| x.is_one()) {
            return konst(BigRational::zero());
        }
        un(self, Node::Ln)
    }
    fn exp(&self) -> Self {
        if let Some(x) = cf(self.0) {
            return kf(x.exp());
        }
        un(self, Node::Exp)
    }
    fn cos(&self) -> Self {
        if let Some(x) = cf(self.0) {
            return kf(x.cos());
        }
        un(self, Node::Cos)
    }
    fn sin(&self) -> Self {
        if let Some(x) = cf(self.0) {
            return kf(x.sin());
        }
        un(self, Node::Sin)
    }
    fn powf(&self, power: &Self) -> Self {
        if mode() == Mode::Fp {
            if let (Some(b), Some(e)) = (cf(self.0), cf(power.0)) {
                return kf(b.powf(e));
            }
            return mk(Node::PowF(self.0, power.0));
        }
        let e = match cst(power.0) {
            Some(e) => e,
            None => panic!("SYMX-INCONCLUSIVE: symbolic exponent in powf"),
        };
        if let Some(b) = cst(self.0) {
            if b.is_one() {
                return konst(BigRational::one());
            }
        }
        if e.is_zero() {
            return konst(BigRational::one());
        }
        if e.is_one() {
            return touch(*self);
        }
        mk(Node::Pow(self.0, e))
    }
    fn sqrt(&self) -> Self {
        if let Some(x) = cf(self.0) {
            return kf(x.sqrt());
        }
        if let Some(c) = cst(self.0) {
            if c.is_zero() || c.is_one() {
                return touch(*self);
            }
        }
        un(self, Node::Sqrt)
    }
    fn from_isize(&self, v: isize) -> Self {
        match mode() {
            Mode::Real => konst(BigRational::from_integer(BigInt::from(v))),
            Mode::Fp => kf(v as f64),
        }
    }
    fn from_f64(&self, v: f64) -> Self {
        let (pending, tags) = CTX.with(|c| {
            let mut c = c.borrow_mut();
            (std::mem::take(&mut c.pending_narrow), c.rng_tags)
        });
        let symbolic = pending.iter().any(|&i| !is_const(i));
        if symbolic {
            let r = mk(Node::Narrow(pending.clone(), v.to_bits()));
            CTX.with(|c| c.borrow_mut().narrow_events.push((pending, r.0)));
            return r;
        }
        if tags > 0 {
            let k = v * 9007199254740992.0; // 2^53
            if k >= 1.0 && k <= tags as f64 && k.fract() == 0.0 {
                return var(&format!("x{}", k as usize - 1));
            }
        }
        CTX.with(|c| c.borrow_mut().from_f64_consts.push(v.to_bits()));
        kf(v)
    }
    fn inv(&self) -> Self {
        bin(3, self.one(), *self)
    }
    fn to_f64(&self) -> f64 {
        let r = match get(self.0) {
            Node::Const(c) => c.to_f64().unwrap(),
            Node::CF(b) => f64::from_bits(b),
            _ => {
                CTX.with(|c| {
                    let mut c = c.borrow_mut();
                    c.to_f64_log.push(self.0);
                    c.placeholder
                })
            }
        };
        CTX.with(|c| c.borrow_mut().pending_narrow.push(self.0));
        r
    }
    fn abs(&self) -> Self {
        if let Some(c) = cst(self.0) {
            return konst(c.abs());
        }
        if let Some(x) = cf(self.0) {
            return kf(x.abs());
        }
        un(self, Node::Abs)
    }
    #[allow(non_snake_case)]
    fn PI(&self) -> Self {
        match mode() {
            Mode::Real => mk(Node::Pi),
            Mode::Fp => kf(std::f64::consts::PI),
        }
    }
}

/// numeric (f64) evaluation of a term DAG; used to validate the encoder against
/// the native T=f64 execution and to evaluate goals at solver models.
pub fn eval_f64(nodes: &[Node], root: u32, env: &dyn Fn(&str) -> f64, narrow: &dyn Fn(&[f64], u64) -> f64) -> f64 {
    let mut memo: HashMap<u32, f64> = HashMap::new();
    fn go(
        nodes: &[Node],
        i: u32,
        env: &dyn Fn(&str) -> f64,
        narrow: &dyn Fn(&[f64], u64) -> f64,
        memo: &mut HashMap<u32, f64>,
    ) -> f64 {
        if let Some(v) = memo.get(&i) {
            return *v;
        }
        let mut g = |j: u32, memo: &mut HashMap<u32, f64>| go(nodes, j, env, narrow, memo);
        let v = match &nodes[i as usize] {
            Node::Var(n) => env(n),
            Node::Const(r) => r.to_f64().unwrap(),
            Node::CF(b) => f64::from_bits(*b),
            Node::Pi => std::f64::consts::PI,
            Node::Add(a, b) => g(*a, memo) + g(*b, memo),
            Node::Sub(a, b) => g(*a, memo) - g(*b, memo),
            Node::Mul(a, b) => g(*a, memo) * g(*b, memo),
            Node::Div(a, b) => g(*a, memo) / g(*b, memo),
            Node::Neg(a) => -g(*a, memo),
            Node::Sqrt(a) => g(*a, memo).sqrt(),
            Node::Abs(a) => g(*a, memo).abs(),
            Node::Pow(a, e) => g(*a, memo).powf(e.to_f64().unwrap()),
            Node::PowF(a, e) => {
                let b = g(*a, memo);
                b.powf(g(*e, memo))
            }
            Node::Ln(a) => g(*a, memo).ln(),
            Node::Exp(a) => g(*a, memo).exp(),
            Node::Cos(a) => g(*a, memo).cos(),
            Node::Sin(a) => g(*a, memo).sin(),
            Node::Narrow(args, bits) => {
                let vals: Vec<f64> = args.iter().map(|a| g(*a, memo)).collect();
                narrow(&vals, *bits)
            }
        };
        memo.insert(i, v);
        v
    }
    go(nodes, root, env, narrow, &mut memo)
}
