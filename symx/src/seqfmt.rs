//! A minimal self-describing serde data format that preserves f64 bit patterns and encodes structs as
//! *sequences* of their fields (the way MessagePack/bincode-style formats do), to complement the
//! map-encoding serde_json value tree in the C18 round-trip check.
use serde::de::{self, DeserializeSeed, SeqAccess, Visitor};
use serde::ser::{self, Serialize};
use std::fmt;

#[derive(Clone, Debug, PartialEq)]
pub enum SV {
    Bool(bool),
    I(i64),
    U(u64),
    F(u64),
    Str(String),
    Seq(Vec<SV>),
    Unit,
}

#[derive(Debug)]
pub struct Error(String);
impl fmt::Display for Error {
    fn fmt(&self, f: &mut fmt::Formatter<'_>) -> fmt::Result {
        write!(f, "{}", self.0)
    }
}
impl std::error::Error for Error {}
impl ser::Error for Error {
    fn custom<T: fmt::Display>(m: T) -> Self {
        Error(m.to_string())
    }
}
impl de::Error for Error {
    fn custom<T: fmt::Display>(m: T) -> Self {
        Error(m.to_string())
    }
}

pub fn to_sv<T: Serialize>(v: &T) -> Result<SV, Error> {
    v.serialize(Ser)
}
pub fn from_sv<'de, T: de::Deserialize<'de>>(v: SV) -> Result<T, Error> {
    T::deserialize(De(v))
}

struct Ser;
pub struct SeqSer(Vec<SV>);

macro_rules! num {
    ($f:ident, $t:ty, $v:ident, $c:ty) => {
        fn $f(self, v: $t) -> Result<SV, Error> {
            Ok(SV::$v(v as $c))
        }
    };
}
impl ser::Serializer for Ser {
    type Ok = SV;
    type Error = Error;
    type SerializeSeq = SeqSer;
    type SerializeTuple = SeqSer;
    type SerializeTupleStruct = SeqSer;
    type SerializeTupleVariant = ser::Impossible<SV, Error>;
    type SerializeMap = ser::Impossible<SV, Error>;
    type SerializeStruct = SeqSer;
    type SerializeStructVariant = ser::Impossible<SV, Error>;
    fn serialize_bool(self, v: bool) -> Result<SV, Error> {
        Ok(SV::Bool(v))
    }
    num!(serialize_i8, i8, I, i64);
    num!(serialize_i16, i16, I, i64);
    num!(serialize_i32, i32, I, i64);
    num!(serialize_i64, i64, I, i64);
    num!(serialize_u8, u8, U, u64);
    num!(serialize_u16, u16, U, u64);
    num!(serialize_u32, u32, U, u64);
    num!(serialize_u64, u64, U, u64);
    fn serialize_f32(self, v: f32) -> Result<SV, Error> {
        Ok(SV::F((v as f64).to_bits()))
    }
    fn serialize_f64(self, v: f64) -> Result<SV, Error> {
        Ok(SV::F(v.to_bits()))
    }
    fn serialize_char(self, v: char) -> Result<SV, Error> {
        Ok(SV::Str(v.to_string()))
    }
    fn serialize_str(self, v: &str) -> Result<SV, Error> {
        Ok(SV::Str(v.to_string()))
    }
    fn serialize_bytes(self, v: &[u8]) -> Result<SV, Error> {
        Ok(SV::Seq(v.iter().map(|b| SV::U(*b as u64)).collect()))
    }
    fn serialize_none(self) -> Result<SV, Error> {
        Ok(SV::Unit)
    }
    fn serialize_some<T: ?Sized + Serialize>(self, v: &T) -> Result<SV, Error> {
        Ok(SV::Seq(vec![v.serialize(Ser)?]))
    }
    fn serialize_unit(self) -> Result<SV, Error> {
        Ok(SV::Unit)
    }
    fn serialize_unit_struct(self, _n: &'static str) -> Result<SV, Error> {
        Ok(SV::Unit)
    }
    fn serialize_unit_variant(self, _n: &'static str, i: u32, _v: &'static str) -> Result<SV, Error> {
        Ok(SV::U(i as u64))
    }
    fn serialize_newtype_struct<T: ?Sized + Serialize>(self, _n: &'static str, v: &T) -> Result<SV, Error> {
        v.serialize(Ser)
    }
    fn serialize_newtype_variant<T: ?Sized + Serialize>(self, _n: &'static str, _i: u32, _v: &'static str, _val: &T) -> Result<SV, Error> {
        Err(Error("enum variants with data are not supported by this format".into()))
    }
    fn serialize_seq(self, _len: Option<usize>) -> Result<SeqSer, Error> {
        Ok(SeqSer(vec![]))
    }
    fn serialize_tuple(self, _len: usize) -> Result<SeqSer, Error> {
        Ok(SeqSer(vec![]))
    }
    fn serialize_tuple_struct(self, _n: &'static str, _len: usize) -> Result<SeqSer, Error> {
        Ok(SeqSer(vec![]))
    }
    fn serialize_tuple_variant(self, _n: &'static str, _i: u32, _v: &'static str, _l: usize) -> Result<Self::SerializeTupleVariant, Error> {
        Err(Error("tuple variants are not supported".into()))
    }
    fn serialize_map(self, _len: Option<usize>) -> Result<Self::SerializeMap, Error> {
        Err(Error("maps are not supported".into()))
    }
    fn serialize_struct(self, _n: &'static str, _len: usize) -> Result<SeqSer, Error> {
        Ok(SeqSer(vec![]))
    }
    fn serialize_struct_variant(self, _n: &'static str, _i: u32, _v: &'static str, _l: usize) -> Result<Self::SerializeStructVariant, Error> {
        Err(Error("struct variants are not supported".into()))
    }
}
impl ser::SerializeSeq for SeqSer {
    type Ok = SV;
    type Error = Error;
    fn serialize_element<T: ?Sized + Serialize>(&mut self, v: &T) -> Result<(), Error> {
        self.0.push(v.serialize(Ser)?);
        Ok(())
    }
    fn end(self) -> Result<SV, Error> {
        Ok(SV::Seq(self.0))
    }
}
impl ser::SerializeTuple for SeqSer {
    type Ok = SV;
    type Error = Error;
    fn serialize_element<T: ?Sized + Serialize>(&mut self, v: &T) -> Result<(), Error> {
        ser::SerializeSeq::serialize_element(self, v)
    }
    fn end(self) -> Result<SV, Error> {
        Ok(SV::Seq(self.0))
    }
}
impl ser::SerializeTupleStruct for SeqSer {
    type Ok = SV;
    type Error = Error;
    fn serialize_field<T: ?Sized + Serialize>(&mut self, v: &T) -> Result<(), Error> {
        ser::SerializeSeq::serialize_element(self, v)
    }
    fn end(self) -> Result<SV, Error> {
        Ok(SV::Seq(self.0))
    }
}
impl ser::SerializeStruct for SeqSer {
    type Ok = SV;
    type Error = Error;
    fn serialize_field<T: ?Sized + Serialize>(&mut self, _k: &'static str, v: &T) -> Result<(), Error> {
        ser::SerializeSeq::serialize_element(self, v)
    }
    fn end(self) -> Result<SV, Error> {
        Ok(SV::Seq(self.0))
    }
}

struct De(SV);
struct SeqDe(std::vec::IntoIter<SV>);
impl<'de> SeqAccess<'de> for SeqDe {
    type Error = Error;
    fn next_element_seed<T: DeserializeSeed<'de>>(&mut self, seed: T) -> Result<Option<T::Value>, Error> {
        match self.0.next() {
            Some(v) => seed.deserialize(De(v)).map(Some),
            None => Ok(None),
        }
    }
}
impl<'de> de::Deserializer<'de> for De {
    type Error = Error;
    fn deserialize_any<V: Visitor<'de>>(self, v: V) -> Result<V::Value, Error> {
        match self.0 {
            SV::Bool(b) => v.visit_bool(b),
            SV::I(i) => v.visit_i64(i),
            SV::U(u) => v.visit_u64(u),
            SV::F(b) => v.visit_f64(f64::from_bits(b)),
            SV::Str(s) => v.visit_string(s),
            SV::Seq(s) => v.visit_seq(SeqDe(s.into_iter())),
            SV::Unit => v.visit_unit(),
        }
    }
    fn deserialize_option<V: Visitor<'de>>(self, v: V) -> Result<V::Value, Error> {
        match self.0 {
            SV::Unit => v.visit_none(),
            SV::Seq(mut s) if s.len() == 1 => v.visit_some(De(s.remove(0))),
            other => v.visit_some(De(other)),
        }
    }
    fn deserialize_newtype_struct<V: Visitor<'de>>(self, _n: &'static str, v: V) -> Result<V::Value, Error> {
        v.visit_newtype_struct(self)
    }
    serde::forward_to_deserialize_any! {
        bool i8 i16 i32 i64 i128 u8 u16 u32 u64 u128 f32 f64 char str string bytes byte_buf unit unit_struct
        seq tuple tuple_struct map struct enum identifier ignored_any
    }
}
