//! Path exploration: re-run a closure under DFS over decision vectors.
use crate::sym::*;
use std::panic::{catch_unwind, AssertUnwindSafe};

pub struct Path<R> {
    pub nodes: Vec<Node>,
    pub taken: Vec<(Atom, bool)>,
    pub narrow: Vec<(Vec<u32>, u32)>,
    pub to_f64_log: Vec<u32>,
    pub from_f64_consts: Vec<u64>,
    /// Err(panic message) if the code under test panicked on this path
    pub result: Result<R, String>,
}

#[derive(Clone, Copy)]
pub struct ExploreCfg {
    pub mode: Mode,
    pub max_paths: usize,
    pub rng_tags: usize,
    pub placeholder: f64,
}
impl Default for ExploreCfg {
    fn default() -> Self {
        ExploreCfg { mode: Mode::Real, max_paths: 200_000, rng_tags: 0, placeholder: 0.5 }
    }
}

pub fn quiet_panics() {
    std::panic::set_hook(Box::new(|info| {
        let s = info.to_string();
        if std::env::var("SYMX_DEBUG").is_ok() {
            eprintln!("{}", s);
        }
    }));
}

pub fn panic_msg(e: Box<dyn std::any::Any + Send>) -> String {
    e.downcast_ref::<String>()
        .cloned()
        .or_else(|| e.downcast_ref::<&str>().map(|s| s.to_string()))
        .unwrap_or_else(|| "<non-string panic>".into())
}

/// run `f` once with a fixed decision prefix
pub fn run_once<R>(cfg: ExploreCfg, prefix: &[bool], f: &dyn Fn() -> R) -> Path<R> {
    CTX.with(|c| {
        let mut c = c.borrow_mut();
        *c = Ctx::default();
        c.mode = cfg.mode;
        c.prefix = prefix.to_vec();
        c.rng_tags = cfg.rng_tags;
        c.placeholder = cfg.placeholder;
    });
    let r = catch_unwind(AssertUnwindSafe(|| f())).map_err(panic_msg);
    CTX.with(|c| {
        let mut c = c.borrow_mut();
        Path {
            nodes: std::mem::take(&mut c.nodes),
            taken: std::mem::take(&mut c.taken),
            narrow: std::mem::take(&mut c.narrow_events),
            to_f64_log: std::mem::take(&mut c.to_f64_log),
            from_f64_consts: std::mem::take(&mut c.from_f64_consts),
            result: r,
        }
    })
}

/// all syntactic paths (both outcomes of every symbolic comparison)
pub fn explore<R>(cfg: ExploreCfg, f: impl Fn() -> R) -> (Vec<Path<R>>, bool) {
    let mut out = vec![];
    let mut prefix: Vec<bool> = vec![];
    let mut complete = true;
    loop {
        let p = run_once(cfg, &prefix, &f);
        let mut d: Vec<bool> = p.taken.iter().map(|t| t.1).collect();
        out.push(p);
        while let Some(false) = d.last() {
            d.pop();
        }
        if d.is_empty() {
            break;
        }
        if out.len() >= cfg.max_paths {
            complete = false;
            break;
        }
        *d.last_mut().unwrap() = false;
        prefix = d;
    }
    (out, complete)
}
