//! C11 — jacobian = normalisation * U^(-D/2) * V^(-dod) in the rescaled gauge, invariant under the rescaling.
use crate::catalogue::{entries, Entry};
use crate::framework::*;
use crate::oracle;
use crate::props::c07::sector_of;
use crate::scalar::*;
use crate::sx::*;
use crate::with_dim;
use momtrop::float::MomTropFloat;
use num::rational::BigRational;
use num::ToPrimitive;
use serde_json::json;

pub struct C11 {
    pub entry: Entry,
    pub d: usize,
    pub routing: Routing,
}

fn go<T: Scalar, const D: usize>(h: &C11, out: &mut Outcome<T>) {
    let g = h.entry.ograph();
    let kin = rat_kin::<T>(&g, D);
    let run = run_sample::<T, D>(&h.entry, &h.routing, &kin, &settings(true, true, None), None, out);
    let (zero, one) = (T::rat(0, 1), T::rat(1, 1));
    let sec = match sector_of(&run) {
        Some(s) => s,
        None => {
            out.structural.push("debug log keys of the sector walk are missing".into());
            return;
        }
    };
    for (e, xe) in sec.x.iter().enumerate() {
        out.cut(*xe, format!("X{}", e), &["(> {} 0.0)"]);
    }
    let res = match &run.res {
        Ok(r) => r,
        Err(e) => {
            out.prove(format!("sample-ok ({})", e), one, Rel::Eq, zero);
            return;
        }
    };
    cut_u_inverse(out, &g, &h.routing.sig, &sec.x, res);
    let l = g.num_loops();
    let dod = g.dod(D);
    let half_d = BigRational::new((D as i64).into(), 2.into());
    // 1. gauge after rescaling
    out.prove("u_trop = 1", res.u_trop, Rel::Eq, one);
    out.prove("v_trop = 1", res.v_trop, Rel::Eq, one);
    // 2. structure of the weight
    let table = serde_json::to_value(&run.sampler).unwrap();
    let cached = table["table"]["cached_factor"].as_f64().expect("cached_factor");
    let spec = (one / res.u).powf(&T::big(&half_d)) * (one / res.v).powf(&T::big(&dod)) * T::lit(cached);
    out.prove_log("jacobian = normalisation * u^(-D/2) * v^(-dod)", res.jacobian, Rel::Eq, spec);
    // 3. normalisation = I_tr * Gamma(dod) / prod Gamma(w) * pi^(DL/2)  (I_tr from the oracle's exact J recursion)
    let j = oracle::j_table(&g, D);
    let i_tr = j[g.full() as usize].to_f64().unwrap();
    let gam = |x: f64| statrs::function::gamma::gamma(x);
    let denom: f64 = g.weights.iter().map(|w| gam(w.to_f64().unwrap())).product();
    let formula = i_tr * gam(dod.to_f64().unwrap()) / denom * std::f64::consts::PI.powf((D * l) as f64 / 2.0);
    out.prove("normalisation = I_tr Gamma(dod)/prod Gamma(w) pi^(DL/2) (rel. 1e-12)", T::lit((cached / formula - 1.0).abs()), Rel::Le, T::lit(1e-12));
    // 4. invariance under the internal rescaling: with U~ = u/s^L and V~ = v/s (the polynomials at the
    //    unrescaled parameters, see 5.), jacobian = normalisation * (U_tr/U~)^(D/2) * (V_tr/V~)^dod
    let s = sec.x[sec.order[0]];
    let mut sl = one;
    for _ in 0..l {
        sl = sl * s;
    }
    // U_tr, V_tr: the dominating monomials of U and F/U from the oracle (not the code's bookkeeping)
    let um = oracle::u_monomials(&g);
    let fm = oracle::f_monomials_generic(&g);
    let u_tr = oracle::monomial(&um[oracle::dominant(&um, &sec.order)], &sec.xt);
    let v_tr = if fm.is_empty() { sec.vt } else { oracle::monomial(&fm[oracle::dominant(&fm, &sec.order)], &sec.xt) / u_tr };
    let ut_ratio = u_tr / (res.u / sl);
    let vt_ratio = v_tr / (res.v / s);
    let unrescaled = ut_ratio.powf(&T::big(&half_d)) * vt_ratio.powf(&T::big(&dod)) * T::lit(cached);
    out.prove_log("jacobian = normalisation * (U_tr/U)^(D/2) (V_tr/V)^dod at the unrescaled parameters", res.jacobian, Rel::Eq, unrescaled);
    {
        let mut tw = goal("twin: jacobian = normalisation / u", res.jacobian, Rel::Eq, T::lit(cached) / res.u);
        tw.only_cuts = Some(vec![]);
        tw.pow = Some(crate::smt::PowEnc::Opaque);
        out.twins.push(tw);
    }
    // 5. u and v*u are the Symanzik polynomials at the rescaled parameters, and homogeneous: U(x) = s^L U(x~), F(x) = s^(L+1) F(x~)
    let u_x = oracle::u_poly(&g, &sec.x);
    out.prove_cuts("u = U(x)", res.u, Rel::Eq, u_x, &["X"]);
    let f_x = oracle::f_poly(&g, &sec.x, &kin.pin, &run.m2);
    out.prove("v*u = F(x)", res.v * res.u, Rel::Eq, f_x);
    for (e, xe) in sec.xt.iter().enumerate() {
        out.cut_local(*xe, format!("T{}", e));
    }
    out.cut_local(s, "S");
    let u_xt = oracle::u_poly(&g, &sec.xt);
    let f_xt = oracle::f_poly(&g, &sec.xt, &kin.pin, &run.m2);
    out.prove_cuts("U(x) = s^L U(x~)", u_x, Rel::Eq, sl * u_xt, &["T", "S"]);
    out.prove_cuts("F(x) = s^(L+1) F(x~)", f_x, Rel::Eq, sl * s * f_xt, &["T", "S"]);
}

impl Harness for C11 {
    fn name(&self) -> String {
        format!("c11/{}/D={}/{}", self.entry.name, self.d, self.routing.name)
    }
    fn run<T: Scalar>(&self, out: &mut Outcome<T>) {
        with_dim!(self.d, go, self, out)
    }
    fn n_validate(&self) -> usize {
        2
    }
    fn ignore_panic(&self, msg: &str) -> bool {
        msg.contains("could not sample edge")
    }
}

pub fn run(cfg: &RunCfg) -> PartResult {
    let mut total = PartResult {
        part: "symx:C11".into(),
        functions_encoded: vec![
            "sampling::sample::<Sym> (jacobian assembly), permatuhedral_sampling (rescaling target/scaling) via generate_sample_from_x_space_point (real code)".into(),
        ],
        ..Default::default()
    };
    let mut covered = vec![];
    for entry in entries(cfg.tier, false) {
        let g = entry.ograph();
        let dims = if cfg.tier == Tier::Thorough { entry.dims.clone() } else { vec![entry.dims[(cfg.seed as usize) % entry.dims.len()]] };
        for d in dims {
            for routing in routings(&g, if cfg.tier == Tier::Thorough { 2 } else { 1 }) {
                covered.push(json!({"graph": entry.name, "D": d, "routing": routing.name}));
                total.merge(check_harness(&C11 { entry: entry.clone(), d, routing }, cfg));
            }
        }
    }
    total.bounds = json!({
        "catalogue": covered,
        "claims": [
            "u_trop = v_trop = 1 (constants)",
            "jacobian = cached_factor * u^(-D/2) * v^(-dod) (log-linear query; u, v opaque positive)",
            "cached_factor agrees to 1e-12 with I_tr(oracle, exact rationals) * Gamma(dod)/prod Gamma(w) * pi^(DL/2) (Gamma evaluated with statrs in the harness)",
            "jacobian = cached_factor * (U_tr/(u/s^L))^(D/2) * (V_tr/(v/s))^dod with s the common rescaling (log-linear query using the code's own scaling term), plus U(x) = s^L U(x~), F(x) = s^(L+1) F(x~), u = U(x) (and v*u = F(x) for L=1; C09 for L>=2)"
        ],
        "outside": "numerical value of Gamma (same library as the code); graphs outside the catalogue"
    });
    total.assumptions = vec!["z3 answers trusted".into(), "log-linear encoding presupposes positivity of u, v, s, u_trop, v_trop (proved as side goals in C07-C09)".into()];
    total
}
