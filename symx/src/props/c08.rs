//! C08 — returned U is the first Symanzik polynomial; L matrix symmetric with entries sum_e x_e s_ei s_ej.
use crate::catalogue::{entries, Entry};
use crate::framework::*;
use crate::oracle;
use crate::scalar::*;
use crate::sx::*;
use crate::with_dim;
use serde_json::json;

pub struct C08 {
    pub entry: Entry,
    pub d: usize,
    pub routing: Routing,
}

fn go<T: Scalar, const D: usize>(h: &C08, out: &mut Outcome<T>) {
    let g = h.entry.ograph();
    let kin = rat_kin::<T>(&g, D);
    let run = run_sample::<T, D>(&h.entry, &h.routing, &kin, &settings(true, true, None), None, out);
    // the rescaled Feynman parameters are abstracted to arbitrary positive reals on every path,
    // error paths included (so that their infeasibility is decided once, independently of the sector)
    let x = run.logged("momtrop_feynman_parameter").expect("feature log: momtrop_feynman_parameter").clone();
    for (e, xe) in x.iter().enumerate() {
        out.cut(*xe, format!("X{}", e), &["(> {} 0.0)"]);
    }
    let res = match &run.res {
        Ok(r) => r,
        Err(e) => {
            out.prove(format!("sample-ok ({})", e), T::rat(1, 1), Rel::Eq, T::rat(0, 1));
            return;
        }
    };
    let md = res.metadata.as_ref().expect("metadata requested");
    let l = g.num_loops();
    let zero = T::rat(0, 1);
    for i in 0..l {
        for j in 0..l {
            let mut acc = zero;
            for e in 0..g.ne() {
                let c = h.routing.sig[e][i] * h.routing.sig[e][j];
                if c != 0 {
                    acc = acc + T::rat(c as i64, 1) * x[e];
                }
            }
            out.prove(format!("L[{},{}]=sum x s s", i, j), md.l_matrix[(i, j)], Rel::Eq, acc);
            if j > i {
                out.prove(format!("L[{},{}] symmetric", i, j), md.l_matrix[(i, j)], Rel::Eq, md.l_matrix[(j, i)]);
            }
        }
    }
    let u_spec = oracle::u_poly(&g, &x);
    out.prove("u=sum over spanning trees", res.u, Rel::Eq, u_spec);
    out.prove("u>0", zero, Rel::Lt, res.u);
    out.twin("twin:u=U+x0^L", res.u, Rel::Eq, u_spec + (0..l).fold(T::rat(1, 1), |a, _| a * x[0]));
}

impl Harness for C08 {
    fn name(&self) -> String {
        format!("c08/{}/D={}/{}", self.entry.name, self.d, self.routing.name)
    }
    fn run<T: Scalar>(&self, out: &mut Outcome<T>) {
        with_dim!(self.d, go, self, out)
    }
    fn n_validate(&self) -> usize {
        2
    }
    fn ignore_panic(&self, msg: &str) -> bool {
        msg.contains("could not sample edge") // totality of edge selection is C06's subject
    }
}

pub fn run(cfg: &RunCfg) -> PartResult {
    let mut total = PartResult {
        part: "symx:C08".into(),
        functions_encoded: vec![
            "momtrop::SampleGenerator::generate_sample_from_x_space_point::<Sym> -> sampling::sample (real code)".into(),
            "sampling::{permatuhedral_sampling, compute_l_matrix}, matrix::SquareMatrix::decompose_for_tropical (determinant)".into(),
        ],
        ..Default::default()
    };
    let mut covered = vec![];
    for entry in entries(cfg.tier, false) {
        let g = entry.ograph();
        let nr = if g.ne() >= 6 { 1 } else if g.num_loops() >= 3 { 2 } else { 4 };
        // one D per entry: u and L do not depend on D (D only changes the number of Gaussian coordinates)
        let d = entry.dims[(cfg.seed as usize) % entry.dims.len()];
        for routing in routings(&g, nr) {
            covered.push(json!({"graph": entry.name, "E": entry.ne(), "L": g.num_loops(), "D": d, "routing": routing.name}));
            total.merge(check_harness(&C08 { entry: entry.clone(), d, routing }, cfg));
        }
    }
    total.bounds = json!({
        "catalogue": covered,
        "arithmetic": "exact reals; Feynman parameters abstracted to arbitrary positive reals (cut), so all sectors and all x-space points are covered at once",
        "outside": "graphs not in the catalogue; rounding of T=f64"
    });
    total.assumptions = vec![
        "z3 answers trusted".into(),
        "oracle (union-find spanning-tree enumeration) is the specification of the Kirchhoff polynomial".into(),
        "cut: rescaled Feynman parameters > 0 (each cut constraint is itself proved on every path)".into(),
    ];
    total
}
