//! C13 — Gaussian vectors are the Box-Muller transform of their designated coordinate pairs.
use crate::catalogue::{banana, entries, Entry};
use crate::framework::*;
use crate::scalar::*;
use crate::smt::{EmitOpts, Transc};
use crate::sx::*;
use crate::with_dim;
use momtrop::float::MomTropFloat;
use serde_json::json;

pub struct C13 {
    pub entry: Entry,
    pub d: usize,
}

fn go<T: Scalar, const D: usize>(h: &C13, out: &mut Outcome<T>) {
    let g = h.entry.ograph();
    let routing = routings(&g, 1).remove(0);
    let kin = rat_kin::<T>(&g, D);
    let run = run_sample::<T, D>(&h.entry, &routing, &kin, &settings(false, true, None), None, out);
    let res = match &run.res {
        Ok(r) => r,
        Err(_) => return, // error paths carry no Gaussian vectors (C16 covers them)
    };
    let md = res.metadata.as_ref().unwrap();
    let l = g.num_loops();
    let t = 2 * g.ne() - 1;
    let zero = T::rat(0, 1);
    out.prove("one vector per loop", T::rat(md.q_vectors.len() as i64, 1), Rel::Eq, T::rat(l as i64, 1));
    for i in 0..l {
        for d in 0..D {
            let n = i * D + d;
            let a = run.x[t + 2 * (n / 2)];
            let b = run.x[t + 2 * (n / 2) + 1];
            // sound fact about the logarithm on (0,1), needed for the square root to be defined
            out.assume(format!("ln(x{})<=0", t + 2 * (n / 2)), a.ln(), Rel::Le, zero);
            let r = (T::rat(-2, 1) * a.ln()).sqrt();
            let theta = T::rat(2, 1) * (a.PI() * b);
            let spec = if n % 2 == 0 { r * theta.cos() } else { r * theta.sin() };
            out.prove(format!("q[{}][{}]=box-muller(x{},x{})", i, d, t + 2 * (n / 2), t + 2 * (n / 2) + 1), md.q_vectors[i][d], Rel::Eq, spec);
            if n == 0 {
                out.twin("twin:q[0][0]=r*sin", md.q_vectors[i][d], Rel::Eq, r * theta.sin());
            }
            if n == l * D - 1 && n >= 2 {
                // wrong pair
                let a2 = run.x[t];
                let r2 = (T::rat(-2, 1) * a2.ln()).sqrt();
                out.twin("twin:last component from pair 0", md.q_vectors[i][d], Rel::Eq, if n % 2 == 0 { r2 * theta.cos() } else { r2 * theta.sin() });
            }
        }
    }
}

impl Harness for C13 {
    fn name(&self) -> String {
        format!("c13/{}/D={}", self.entry.name, self.d)
    }
    fn run<T: Scalar>(&self, out: &mut Outcome<T>) {
        with_dim!(self.d, go, self, out)
    }
    fn emit_opts(&self) -> EmitOpts {
        EmitOpts { transc: Transc::UF, ..Default::default() }
    }
    fn n_validate(&self) -> usize {
        3
    }
    fn ignore_panic(&self, msg: &str) -> bool {
        msg.contains("could not sample edge")
    }
}

pub fn run(cfg: &RunCfg) -> PartResult {
    let mut total = PartResult {
        part: "symx:C13".into(),
        functions_encoded: vec![
            "sampling::{sample, sample_q_vectors, box_muller} via generate_sample_from_x_space_point::<Sym> (real code)".into(),
            "mimic_rng::MimicRng::get_random_number (order of reads)".into(),
        ],
        ..Default::default()
    };
    let mut covered = vec![];
    let lmax = if cfg.tier == Tier::Thorough { 5 } else { 3 };
    let mut list: Vec<(Entry, usize)> = vec![];
    for l in 1..=lmax {
        for d in 1..=6 {
            list.push((banana(l, d), d));
        }
    }
    for e in entries(cfg.tier, false) {
        let d = e.dims[(cfg.seed as usize) % e.dims.len()];
        list.push((e, d));
    }
    for (entry, d) in list {
        covered.push(json!({"graph": entry.name, "L": entry.ograph().num_loops(), "D": d}));
        total.merge(check_harness(&C13 { entry, d }, cfg));
    }
    total.bounds = json!({
        "graphs": covered,
        "D_x_L": format!("every D=1..6 with L=1..{} (banana family, weights chosen so that the sampler accepts the graph) + catalogue", lmax),
        "transcendentals": "ln, cos, sin uninterpreted functions (congruence only) + the fact ln(a) <= 0 on (0,1); pi a constant",
        "outside": "numerical accuracy of f64 ln/cos/sin; statistical consequences (normality, independence) are mathematics, not checked"
    });
    total.assumptions = vec!["z3 (QF_UFNRA) answers trusted".into(), "ln(a) <= 0 for a in (0,1) (assumed as a fact about ln)".into()];
    total
}
