pub mod c02;
pub mod c03;
pub mod c06;
pub mod c07;
pub mod c08;
pub mod c09;
pub mod c10;
pub mod c11;
pub mod c13;
pub mod c14;
pub mod c15;
pub mod c16;
pub mod c17;
pub mod c18;
pub mod c19;
pub mod c20;

/// re-execute a recorded replay file natively; exit code 1 if the violation reproduces, 0 if not
pub fn replay(_prop: &str, _file: &str) -> i32 {
    2
}
