//! C20 (a) — Vector primitives implement their componentwise IEEE definitions.
//! `Vector::<Sym, D>` is executed with IEEE-754 binary64 semantics; every result component must be
//! the same term as the componentwise specification or be proved equal bit-precisely (QF_FP).
use crate::framework::*;
use crate::scalar::*;
use crate::smt::EmitOpts;
use crate::sym::Mode;
use momtrop::vector::Vector;
use serde_json::json;

pub struct C20 {
    pub d: usize,
}

fn go<T: Scalar, const D: usize>(out: &mut Outcome<T>) {
    let a: [T; D] = std::array::from_fn(|i| T::var(&format!("a{}", i)));
    let b: [T; D] = std::array::from_fn(|i| T::var(&format!("b{}", i)));
    let c = T::var("c");
    let zero = T::lit(0.0);
    let va = Vector::<T, D>::from_array(a);
    let vb = Vector::<T, D>::from_slice(&b);
    let vc = Vector::<T, D>::from_vec(a.to_vec());
    // constructors round-trip their elements
    let ga = va.get_elements();
    for i in 0..D {
        out.prove(format!("from_array/get_elements[{}]", i), ga[i], Rel::Eq, a[i]);
        out.prove(format!("from_array/Index[{}]", i), va[i], Rel::Eq, a[i]);
        out.prove(format!("from_slice/Index[{}]", i), vb[i], Rel::Eq, b[i]);
        out.prove(format!("from_vec/Index[{}]", i), vc[i], Rel::Eq, a[i]);
    }
    out.prove("len", T::lit(va.len() as f64), Rel::Eq, T::lit(D as f64));
    let z1 = va.new();
    let z2 = Vector::<T, D>::new_from_num(&c);
    let sum = &va + &vb;
    let dif = &va - &vb;
    let sc1 = &va * c;
    let sc2 = &va * &c;
    let mut acc = va.clone();
    acc += vb.clone();
    for i in 0..D {
        out.prove(format!("new()[{}] = 0", i), z1[i], Rel::Eq, zero);
        out.prove(format!("new_from_num[{}] = 0", i), z2[i], Rel::Eq, zero);
        out.prove(format!("(a+b)[{}]", i), sum[i], Rel::Eq, a[i] + b[i]);
        out.prove(format!("(a-b)[{}]", i), dif[i], Rel::Eq, a[i] - b[i]);
        out.prove(format!("(a*c)[{}] by value", i), sc1[i], Rel::Eq, a[i] * c);
        out.prove(format!("(a*c)[{}] by reference", i), sc2[i], Rel::Eq, a[i] * c);
        out.prove(format!("(a+=b)[{}]", i), acc[i], Rel::Eq, a[i] + b[i]);
    }
    // dot: accumulated from index 0, starting from zero
    let mut spec = zero;
    let mut spec_ba = zero;
    let mut spec_sq = zero;
    for i in 0..D {
        spec = spec + a[i] * b[i];
        spec_ba = spec_ba + b[i] * a[i];
        spec_sq = spec_sq + a[i] * a[i];
    }
    let dab = va.dot(&vb);
    let dba = vb.dot(&va);
    // the products are abstracted (local cuts P / R / S): what is decided is the order of the additions; a different
    // accumulation order gives a quick `sat` whose replay draws the components natively
    for i in 0..D {
        out.cut_local(a[i] * b[i], format!("P{}", i));
        out.cut_local(b[i] * a[i], format!("R{}", i));
        out.cut_local(a[i] * a[i], format!("S{}", i));
    }
    out.prove_cuts("dot(a,b) = ((0+a0*b0)+a1*b1)+...", dab, Rel::Eq, spec, &["P"]);
    out.prove_cuts("dot(b,a) = ((0+b0*a0)+b1*a1)+...", dba, Rel::Eq, spec_ba, &["R"]);
    out.prove("squared(a) = dot(a,a)", va.squared(), Rel::Eq, va.dot(&va));
    out.prove_cuts("squared(a) = ((0+a0*a0)+...)", va.squared(), Rel::Eq, spec_sq, &["S"]);
    // symmetry: IEEE multiplication is commutative; each product is abstracted to one shared variable
    // (justified by the bit-precise goal a_i*b_i = b_i*a_i), then the two sums are the same term
    for i in 0..D {
        out.prove(format!("a{}*b{} = b{}*a{} (IEEE)", i, i, i, i), a[i] * b[i], Rel::Eq, b[i] * a[i]);
        out.cut_local(a[i] * b[i], format!("C{}", i));
        out.cut_local(b[i] * a[i], format!("C{}", i));
    }
    out.prove_cuts("dot(a,b) = dot(b,a)", dab, Rel::Eq, dba, &["C"]);
    out.twin_opaque("twin: (a+b)[0] = a0", sum[0], Rel::Eq, a[0]);
}

impl Harness for C20 {
    fn name(&self) -> String {
        format!("c20/vector/D={}", self.d)
    }
    fn mode(&self) -> Mode {
        Mode::Fp
    }
    fn emit_opts(&self) -> EmitOpts {
        EmitOpts { fp: true, ..Default::default() }
    }
    fn uf(&self) -> bool {
        false
    }
    fn tol(&self) -> f64 {
        0.0
    }
    fn sample_var(&self, _n: &str, u: f64) -> f64 {
        (u - 0.5) * 1e3
    }
    fn timeout_s(&self, tier: Tier) -> u32 {
        match tier {
            Tier::Quick => 60,
            Tier::Thorough => 600,
        }
    }
    fn run<T: Scalar>(&self, out: &mut Outcome<T>) {
        match self.d {
            1 => go::<T, 1>(out),
            2 => go::<T, 2>(out),
            3 => go::<T, 3>(out),
            4 => go::<T, 4>(out),
            5 => go::<T, 5>(out),
            6 => go::<T, 6>(out),
            7 => go::<T, 7>(out),
            8 => go::<T, 8>(out),
            _ => panic!("SYMX-INTERNAL: D"),
        }
    }
}

pub fn run(cfg: &RunCfg) -> PartResult {
    let mut total = PartResult {
        part: "symx:C20a".into(),
        functions_encoded: vec![
            "vector::Vector::<Sym, D>::{from_array, from_slice, from_vec, get_elements, Index, len, new, new_from_num, squared, dot, Add, Sub, Mul<T>, Mul<&T>, AddAssign} (real code), D = 1..8".into(),
        ],
        ..Default::default()
    };
    let hs: Vec<C20> = (1..=8).map(|d| C20 { d }).collect();
    let results: Vec<PartResult> = std::thread::scope(|sc| {
        let handles: Vec<_> = hs.iter().map(|h| sc.spawn(move || check_harness(h, cfg))).collect();
        handles.into_iter().map(|h| h.join().expect("harness thread")).collect()
    });
    for r in results {
        total.merge(r);
    }
    total.bounds = json!({
        "D": [1, 2, 3, 4, 5, 6, 7, 8],
        "components": "every binary64 value (solver variables, QF_FP): results must be the identical term or bit-precisely equal (NaN = NaN)",
        "outside": "D > 8"
    });
    total.assumptions = vec!["z3 QF_FP answers trusted".into(), "the scalar operations themselves (impl MomTropFloat for f64) are part b (mir2smt)".into()];
    total
}
