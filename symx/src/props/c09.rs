//! C09 — v * u is the second Symanzik polynomial F; independence of the loop-momentum routing.
use crate::catalogue::{entries, Entry};
use crate::framework::*;
use crate::oracle;
use crate::scalar::*;
use crate::sx::*;
use crate::with_dim;
use serde_json::json;

pub struct C09 {
    pub entry: Entry,
    pub d: usize,
    pub routing: Routing,
    pub offsets: bool,
}

fn go<T: Scalar, const D: usize>(h: &C09, out: &mut Outcome<T>) {
    let g = h.entry.ograph();
    let kin = sym_kin::<T>(&g, D, h.offsets);
    let run = run_sample::<T, D>(&h.entry, &h.routing, &kin, &settings(true, true, None), None, out);
    // the rescaled Feynman parameters are abstracted to arbitrary positive reals on every path,
    // error paths included (so that their infeasibility is decided once, independently of the sector)
    let x = run.logged("momtrop_feynman_parameter").expect("feature log: momtrop_feynman_parameter").clone();
    for (e, xe) in x.iter().enumerate() {
        out.cut(*xe, format!("X{}", e), &["(> {} 0.0)"]);
    }
    let res = match &run.res {
        Ok(r) => r,
        Err(e) => {
            out.prove(format!("sample-ok ({})", e), T::rat(1, 1), Rel::Eq, T::rat(0, 1));
            return;
        }
    };
    cut_u_inverse(out, &g, &h.routing.sig, &x, res);
    let f_spec = oracle::f_poly(&g, &x, &kin.pin, &run.m2);
    out.prove("v*u=F (2-forests + U*sum m^2 x)", res.v * res.u, Rel::Eq, f_spec);
    out.prove("u=U", res.u, Rel::Eq, oracle::u_poly(&g, &x));
    // metadata u_vectors = sum_e x_e s_el p_e
    let md = res.metadata.as_ref().unwrap();
    for l in 0..g.num_loops() {
        for d in 0..D {
            let mut acc = T::rat(0, 1);
            for e in 0..g.ne() {
                if h.routing.sig[e][l] != 0 {
                    acc = acc + T::rat(h.routing.sig[e][l] as i64, 1) * x[e] * run.shifts[e][d];
                }
            }
            out.prove(format!("u_vec[{}][{}]", l, d), md.u_vectors[l][d], Rel::Eq, acc);
        }
    }
    out.twin("twin:v*u=F+x0*U", res.v * res.u, Rel::Eq, f_spec + x[0] * res.u);
}

impl Harness for C09 {
    fn name(&self) -> String {
        format!("c09/{}/D={}/{}{}", self.entry.name, self.d, self.routing.name, if self.offsets { "/offsets" } else { "" })
    }
    fn run<T: Scalar>(&self, out: &mut Outcome<T>) {
        with_dim!(self.d, go, self, out)
    }
    fn n_validate(&self) -> usize {
        2
    }
    fn sample_var(&self, name: &str, u: f64) -> f64 {
        if name.starts_with('x') { 0.05 + 0.9 * u } else { 2.0 * u - 1.0 }
    }
    fn ignore_panic(&self, msg: &str) -> bool {
        msg.contains("could not sample edge")
    }
}

pub fn run(cfg: &RunCfg) -> PartResult {
    let mut total = PartResult {
        part: "symx:C09".into(),
        functions_encoded: vec![
            "momtrop::SampleGenerator::generate_sample_from_x_space_point::<Sym> -> sampling::sample (real code)".into(),
            "sampling::{compute_u_vectors, compute_v_polynomial, compute_l_matrix}, matrix::decompose_for_tropical (inverse), vector::Vector ops".into(),
        ],
        ..Default::default()
    };
    let mut covered = vec![];
    let mut list = entries(cfg.tier, false);
    // two loops in D = 5, 6: the Vector code paths for D > 4 together with cross terms between loops
    list.push(crate::catalogue::banana(2, 5));
    list.push(crate::catalogue::banana(2, 6));
    for entry in list {
        let g = entry.ograph();
        // the identity is additive over vector components: the smallest accepted D is used
        let d = *entry.dims.iter().min().unwrap();
        let nr = if g.ne() >= 6 { 1 } else if g.num_loops() >= 3 { 2 } else { 4 };
        for (k, routing) in routings(&g, nr).into_iter().enumerate() {
            let offsets = k == 0;
            covered.push(json!({"graph": entry.name, "E": entry.ne(), "L": g.num_loops(), "D": d, "routing": routing.name, "loop_momentum_offsets": offsets}));
            total.merge(check_harness(&C09 { entry: entry.clone(), d, routing, offsets }, cfg));
        }
    }
    total.bounds = json!({
        "catalogue": covered,
        "kinematics": "masses, external momenta (momentum-conserving) and loop-momentum offsets are solver variables",
        "arithmetic": "exact reals; Feynman parameters cut to arbitrary positive reals (all sectors, all points)",
        "outside": "graphs not in the catalogue; D other than the smallest accepted one per graph (identity is additive over components); rounding"
    });
    total.assumptions = vec![
        "z3 answers trusted".into(),
        "oracle: 2-forest enumeration by union-find; shifts from spanning-tree flow conserve momentum by construction".into(),
        "routing independence is obtained by proving every routing against the same routing-free specification".into(),
    ];
    total
}
