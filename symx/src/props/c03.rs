//! Concrete companions of the Kani table harnesses (C03, C04, C05): the real `build_sampler` is run on the
//! catalogue and on a list of awkward multigraphs (self-loops, vertex labels 64 apart, disconnected graphs,
//! externals untouched by edges, divergent subgraphs) and every table entry is compared with the oracle's
//! exact-rational value. These comparisons are constant goals (no solver involved): they tie the graph
//! routines that Kani replaces by nondeterministic stubs to real inputs, and give natively replayable witnesses.
use crate::catalogue::{catalogue, Entry};
use crate::framework::*;
use crate::oracle;
use crate::scalar::*;
use num::rational::BigRational;
use num::{ToPrimitive, Zero};
use serde_json::json;

#[derive(Clone, Copy, PartialEq)]
pub enum What {
    C03,
    C04,
    C05,
}

pub struct TableCheck {
    pub entry: Entry,
    pub d: usize,
    pub what: What,
}

fn mk(name: &'static str, e: &[(u8, u8, bool, i64, i64)], ext: &[u8], dims: &[usize]) -> Entry {
    Entry { name, edges: e.to_vec(), externals: ext.to_vec(), dims: dims.to_vec(), tier: Tier::Quick, rounding: true }
}

/// multigraphs outside the sampling catalogue (they need not be accepted by the sampler)
pub fn awkward() -> Vec<Entry> {
    let f = false;
    let t = true;
    vec![
        mk("bubble+tadpole", &[(0, 1, f, 1, 1), (0, 1, f, 1, 1), (1, 1, t, 2, 1)], &[0, 1], &[3, 2]),
        mk("single-tadpole", &[(0, 0, t, 3, 2)], &[0], &[2, 1]),
        mk("triangle-labels-0-64-2", &[(0, 64, f, 1, 1), (64, 2, f, 1, 1), (2, 0, f, 1, 1)], &[0, 64, 2], &[3]),
        mk("kite-labels-130-194", &[(130, 2, f, 7, 8), (130, 3, f, 7, 8), (2, 3, f, 7, 8), (2, 194, f, 7, 8), (3, 194, t, 7, 8)], &[130, 194], &[2, 3]),
        mk("two-bubbles-ext-both", &[(0, 1, f, 1, 1), (0, 1, f, 1, 1), (2, 3, f, 1, 1), (2, 3, t, 1, 1)], &[0, 2], &[3]),
        mk("bubble-x-vacuum-bubble", &[(0, 1, f, 1, 1), (0, 1, f, 1, 1), (2, 3, t, 1, 1), (2, 3, t, 1, 1)], &[0, 1], &[3]),
        mk("bubble-ext-untouched", &[(10, 200, f, 1, 1), (10, 200, t, 1, 1)], &[10, 200, 77], &[3, 2]),
        mk("sunrise-divergent-D4", &[(0, 1, f, 1, 1), (0, 1, f, 1, 1), (0, 1, t, 1, 1)], &[0, 1], &[4, 3]),
        mk("box-opposite-masses", &[(0, 1, t, 1, 1), (1, 2, f, 1, 1), (2, 3, t, 1, 1), (3, 0, f, 1, 1)], &[0, 1], &[3, 4]),
        mk("box-adjacent-masses", &[(0, 1, t, 1, 1), (1, 2, t, 1, 1), (2, 3, f, 1, 1), (3, 0, f, 1, 1)], &[0, 1], &[3]),
        mk("triangle-one-mass", &[(0, 1, f, 1, 1), (1, 2, f, 1, 1), (2, 0, t, 1, 1)], &[0, 1, 2], &[3, 4]),
        mk("banana-unequal-weights", &[(0, 1, f, 1, 1), (0, 1, f, 5, 4), (0, 1, t, 3, 2)], &[0, 1], &[3, 4]),
        mk("doubled-edge-path", &[(0, 1, f, 1, 2), (0, 1, f, 3, 4), (1, 2, t, 1, 1)], &[0, 2], &[2, 3]),
        mk("all-massive-triangle", &[(0, 1, t, 1, 1), (1, 2, t, 1, 1), (2, 0, t, 1, 1)], &[0, 1], &[3, 5]),
        mk("parallel-self-loops", &[(5, 5, f, 1, 1), (5, 5, t, 1, 1), (5, 6, f, 1, 1)], &[5, 6], &[2, 3]),
        mk("weights-near-zero-dod", &[(0, 1, f, 1, 1), (0, 1, f, 1, 1)], &[0, 1], &[4]),
        mk("triangle-externals-descending", &[(0, 1, f, 2, 3), (1, 2, f, 2, 3), (2, 0, f, 2, 3)], &[2, 0], &[3]),
        mk("triangle-externals-duplicate", &[(0, 1, f, 2, 3), (1, 2, t, 2, 3), (2, 0, f, 2, 3)], &[1, 0, 1], &[3]),
        mk("box-externals-shuffled", &[(0, 1, f, 3, 4), (1, 2, f, 3, 4), (2, 3, t, 3, 4), (3, 0, f, 3, 4)], &[3, 1, 0, 2], &[3, 2]),
        mk("vacuum-box-labels-0-1-128-2", &[(0, 1, f, 2, 5), (1, 128, f, 2, 5), (128, 2, f, 2, 5), (2, 0, f, 2, 5)], &[], &[3]),
        mk("triangle-labels-1-5-133", &[(1, 5, f, 7, 10), (5, 133, f, 3, 2), (133, 1, f, 1, 2)], &[5], &[4, 3]),
        mk("triangle-labels-0-1-128", &[(0, 1, f, 2, 3), (1, 128, f, 2, 3), (128, 0, f, 2, 3)], &[0, 1, 128], &[3]),
        mk("bubble-chain-labels-5-133", &[(5, 133, f, 1, 1), (5, 133, f, 1, 1), (133, 7, f, 1, 1), (133, 7, t, 1, 1)], &[5, 7], &[3]),
        mk("triangle-labels-72-200-255", &[(72, 200, f, 1, 1), (200, 255, t, 1, 1), (255, 72, f, 1, 1)], &[72, 255], &[3, 4]),
    ]
}

fn build_any(entry: &Entry, d: usize) -> Result<serde_json::Value, String> {
    let sig: Vec<Vec<isize>> = vec![vec![0; entry.ograph().num_loops().max(1)]; entry.ne()];
    macro_rules! b {
        ($D:literal) => {
            entry.graph().build_sampler::<$D>(sig.clone()).map(|s| json!({"s": serde_json::to_value(&s).unwrap(), "dim": s.get_dimension(), "dod": s.get_dod(), "ne": s.get_num_edges(), "w": s.iter_edge_weights().collect::<Vec<f64>>()}))
        };
    }
    match d {
        1 => b!(1),
        2 => b!(2),
        3 => b!(3),
        4 => b!(4),
        5 => b!(5),
        6 => b!(6),
        _ => panic!("SYMX-INTERNAL: dimension"),
    }
}

impl Harness for TableCheck {
    fn name(&self) -> String {
        format!("{}/table/{}/D={}", match self.what { What::C03 => "c03", What::C04 => "c04", What::C05 => "c05" }, self.entry.name, self.d)
    }
    fn n_validate(&self) -> usize {
        1
    }
    fn tol(&self) -> f64 {
        0.0
    }
    fn run<T: Scalar>(&self, out: &mut Outcome<T>) {
        let g = self.entry.ograph();
        let d = self.d;
        let n = g.ne();
        let full = g.full();
        let built = build_any(&self.entry, d);
        let lit = |v: f64| T::lit(v);
        let b2 = |b: bool| T::lit(if b { 1.0 } else { 0.0 });
        let rel_close = |a: f64, b: &BigRational| -> f64 {
            let bf = b.to_f64().unwrap();
            (a - bf).abs() / (1.0 + bf.abs())
        };
        // oracle: is there a divergent proper subgraph (|omega| < 1e-9 excluded from the iff)
        let mut some_neg = false;
        let mut all_pos = true;
        for m in 1..full {
            let w = g.omega(m, d).to_f64().unwrap();
            if w <= -1e-9 {
                some_neg = true;
            }
            if !(w >= 1e-9) {
                all_pos = false;
            }
        }
        match (&built, self.what) {
            (Err(_), What::C05) => {
                out.prove("Err only if some proper subgraph has generalised dod <= 0", b2(all_pos), Rel::Eq, b2(false));
            }
            (Err(_), _) => {
                // rejected graphs have no table; acceptance is C05's subject
            }
            (Ok(v), what) => {
                let t = &v["s"]["table"];
                let tab = t["table"].as_array().expect("table");
                if what == What::C05 {
                    out.prove("Ok only if no proper subgraph has generalised dod <= 0", b2(some_neg), Rel::Eq, b2(false));
                    // deterministic: a second build gives the identical value tree
                    let again = build_any(&self.entry, d).map(|x| x["s"].clone()).unwrap_or(json!(null));
                    out.prove("building twice yields the identical table", b2(again == v["s"]), Rel::Eq, b2(true));
                    for m in 0..=full {
                        let j = tab[m as usize]["j_function"].as_f64().unwrap_or(f64::NAN);
                        if m != full || g.omega(full, d) != BigRational::zero() {
                            out.prove(format!("J({:#b}) finite and > 0", m), b2(j.is_finite() && j > 0.0), Rel::Eq, b2(true));
                        }
                    }
                }
                if what == What::C03 {
                    out.prove("2^E entries", lit(tab.len() as f64), Rel::Eq, lit((1u64 << n) as f64));
                    for m in 0..=full {
                        let e = &tab[m as usize];
                        out.prove(format!("loop number of {:#b}", m), lit(e["loop_number"].as_f64().unwrap()), Rel::Eq, lit(g.loops(m) as f64));
                        out.prove(format!("mass-momentum spanning flag of {:#b}", m), b2(e["mass_momentum_spanning"].as_bool().unwrap()), Rel::Eq, b2(g.mm_spanning(m)));
                        out.prove(format!("generalised dod of {:#b} (1e-12)", m), lit(rel_close(e["generalized_dod"].as_f64().unwrap(), &g.omega(m, d))), Rel::Le, lit(1e-12));
                    }
                    out.prove("get_dod (1e-12)", lit(rel_close(v["dod"].as_f64().unwrap(), &g.dod(d))), Rel::Le, lit(1e-12));
                    out.prove("loop count", lit(t["tropical_graph"]["num_loops"].as_f64().unwrap()), Rel::Eq, lit(g.num_loops() as f64));
                    out.prove("get_num_edges", lit(v["ne"].as_f64().unwrap()), Rel::Eq, lit(n as f64));
                    let dl = d * g.num_loops();
                    out.prove("get_dimension = 2E-1+DL+(DL mod 2)", lit(v["dim"].as_f64().unwrap()), Rel::Eq, lit((2 * n - 1 + dl + dl % 2) as f64));
                    for (e, w) in v["w"].as_array().unwrap().iter().enumerate() {
                        out.prove(format!("weight[{}] echoes the input", e), lit(w.as_f64().unwrap()), Rel::Eq, lit(g.weights[e].to_f64().unwrap()));
                    }
                }
                if what == What::C04 {
                    let jo = oracle::j_table(&g, d);
                    let jf = |m: u64| tab[m as usize]["j_function"].as_f64().unwrap();
                    let wf = |m: u64| tab[m as usize]["generalized_dod"].as_f64().unwrap();
                    out.prove("J(empty) = 1", lit(jf(0)), Rel::Eq, lit(1.0));
                    for m in 1..=full {
                        // recursion with the table's own entries
                        let mut s = 0.0;
                        for e in 0..n {
                            if m >> e & 1 == 1 {
                                let sub = m & !(1u64 << e);
                                s += jf(sub) / wf(sub);
                            }
                        }
                        out.prove(format!("J({:#b}) = sum_e J(g\\e)/omega(g\\e) (1e-12)", m), lit((jf(m) - s).abs() / (1.0 + s.abs())), Rel::Le, lit(1e-12));
                        out.prove(format!("J({:#b}) = exact rational value (1e-10)", m), lit(rel_close(jf(m), &jo[m as usize])), Rel::Le, lit(1e-10));
                    }
                    // normalisation
                    let cached = t["cached_factor"].as_f64().unwrap();
                    let gam = |x: f64| statrs::function::gamma::gamma(x);
                    let denom: f64 = g.weights.iter().map(|w| gam(w.to_f64().unwrap())).product();
                    let formula = jo[full as usize].to_f64().unwrap() * gam(g.dod(d).to_f64().unwrap()) / denom * std::f64::consts::PI.powf((d * g.num_loops()) as f64 / 2.0);
                    if formula.is_finite() && formula != 0.0 {
                        out.prove("normalisation = J(full) Gamma(dod)/prod Gamma(w) pi^(DL/2) (1e-10)", lit((cached / formula - 1.0).abs()), Rel::Le, lit(1e-10));
                    }
                }
            }
        }
        if out.goals.is_empty() {
            out.prove("placeholder", lit(0.0), Rel::Eq, lit(0.0));
        }
    }
}

pub fn run(cfg: &RunCfg, what: What) -> PartResult {
    let tag = match what {
        What::C03 => "C03",
        What::C04 => "C04",
        What::C05 => "C05",
    };
    let mut total = PartResult {
        part: format!("symx:{}-tables", tag),
        functions_encoded: vec!["Graph::build_sampler on concrete graphs (real HashSet graph routines), table read back through serde; compared with the union-find / exact-rational oracle — constant goals, no solver".into()],
        ..Default::default()
    };
    let mut covered = vec![];
    let mut list: Vec<Entry> = catalogue().into_iter().filter(|e| e.tier == Tier::Quick || cfg.tier == Tier::Thorough).collect();
    list.extend(awkward());
    for entry in list {
        for &d in &entry.dims {
            covered.push(json!({"graph": entry.name, "D": d, "E": entry.ne()}));
            total.merge(check_harness(&TableCheck { entry: entry.clone(), d, what }, cfg));
        }
    }
    total.bounds = json!({"graphs": covered, "note": "concrete inputs: this part is an enumeration, not a solver claim; it validates on real graphs the routines the Kani harness stubs"});
    total.assumptions = vec!["oracle = independent union-find / exact-rational implementation of the definitions in the property statements".into()];
    total
}
