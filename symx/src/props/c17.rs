//! C17 — sampling is a pure function of its arguments (self-composition over call histories).
use crate::catalogue::{entries, Entry};
use crate::framework::*;
use crate::scalar::*;
use crate::sx::*;
use crate::with_dim;
use momtrop::vector::Vector;
use momtrop::{TropicalSampleResult, TropicalSamplingSettings};
use serde_json::json;
use std::cell::RefCell;

pub struct C17 {
    pub entry: Entry,
    pub d: usize,
}

pub fn outputs<T: Scalar, const D: usize>(r: &TropicalSampleResult<T, D>) -> Vec<(String, T)> {
    let mut v = vec![("u".to_string(), r.u), ("v".to_string(), r.v), ("jacobian".to_string(), r.jacobian), ("u_trop".to_string(), r.u_trop), ("v_trop".to_string(), r.v_trop)];
    for (l, k) in r.loop_momenta.iter().enumerate() {
        for d in 0..D {
            v.push((format!("k[{}][{}]", l, d), k[d]));
        }
    }
    v
}

struct HarnessRng<T> {
    k: u64,
    /// fixed words (constants for both scalars) instead of the tagged / model-driven ones
    concrete: bool,
    _p: std::marker::PhantomData<T>,
}
impl<T: Scalar> rand::RngCore for HarnessRng<T> {
    fn next_u32(&mut self) -> u32 {
        (self.next_u64() >> 32) as u32
    }
    fn next_u64(&mut self) -> u64 {
        let w = if self.concrete { (self.k.wrapping_mul(0x9e3779b97f4a7c15) ^ 0x5bd1e995_1234_5678) | (1 << 62) } else { T::rng_word(self.k) };
        self.k += 1;
        w
    }
    fn fill_bytes(&mut self, d: &mut [u8]) {
        for b in d.iter_mut() {
            *b = self.next_u64() as u8;
        }
    }
    fn try_fill_bytes(&mut self, d: &mut [u8]) -> Result<(), rand::Error> {
        self.fill_bytes(d);
        Ok(())
    }
}

fn go<T: Scalar, const D: usize>(h: &C17, out: &mut Outcome<T>) {
    let g = h.entry.ograph();
    let routing = routings(&g, 1).remove(0);
    let kin = rat_kin::<T>(&g, D);
    let sampler = build::<D>(&h.entry, &routing.sig);
    let dim = sampler.get_dimension();
    let (zero, one) = (T::rat(0, 1), T::rat(1, 1));
    // the coordinates: what the harness RNG would draw (variables x_k symbolically)
    let x: Vec<T> = (0..dim)
        .map(|k| if T::SYMBOLIC { T::var(&format!("x{}", k)) } else { T::lit((T::rng_word(k as u64) >> 11) as f64 * (1.0 / 9007199254740992.0)) })
        .collect();
    // the interleaved call uses a fixed rational point (a symbolic one would square the number of paths)
    let y: Vec<T> = (0..dim).map(|k| T::rat(26 + (k * 7919 % 101) as i64, 202)).collect();
    for (i, v) in x.iter().enumerate() {
        out.assume(format!("coord{}>0", i), zero, Rel::Lt, *v);
        out.assume(format!("coord{}<1", i), *v, Rel::Lt, one);
    }
    let sh = crate::oracle::shifts(&g, routing.tree, &routing.sig, &kin.pin, &kin.offsets);
    let edge_data = || -> Vec<(Option<T>, Vector<T, D>)> { (0..g.ne()).map(|e| (kin.masses[e], Vector::from_array(std::array::from_fn(|d| sh[e][d])))).collect() };
    let call = |x: &[T], st: &TropicalSamplingSettings| {
        let obs = Obs::<T> { events: RefCell::new(vec![]) };
        sampler.generate_sample_from_x_space_point(x, edge_data(), st, &obs).map_err(|e| format!("{:?}", e))
    };
    let plain = settings(false, false, None);
    // history across samplers: another graph with the same edge count and D but another loop number is
    // built, asked for its dimension and sampled (also through the rng entry point) before anything else
    if let Some(pe) = crate::catalogue::partner(&h.entry, D).filter(|_| std::env::var("SYMX_NO_PARTNER").is_err()) {
        let pg = pe.ograph();
        let pr = routings(&pg, 1).remove(0);
        let ps = build::<D>(&pe, &pr.sig);
        let pdim = ps.get_dimension();
        let pkin = rat_kin::<T>(&pg, D);
        let psh = crate::oracle::shifts(&pg, pr.tree, &pr.sig, &pkin.pin, &pkin.offsets);
        let ped = || -> Vec<(Option<T>, Vector<T, D>)> { (0..pg.ne()).map(|e| (pkin.masses[e], Vector::from_array(std::array::from_fn(|d| psh[e][d])))).collect() };
        // fixed rational point: no new branch decisions
        // (the Gamma coordinate is the same as in the calls below: a value cached per coordinate instead of per
        // (dod, coordinate) is then handed from one sampler to the other)
        let lam = 2 * g.ne() - 2;
        let plam = 2 * pg.ne() - 2;
        let px: Vec<T> = (0..pdim).map(|k| if k == plam { x[lam] } else { T::rat(31 + (k * 7919 % 89) as i64, 181) }).collect();
        let obs = Obs::<T> { events: RefCell::new(vec![]) };
        let mut prng = HarnessRng::<T> { k: 0, concrete: true, _p: std::marker::PhantomData };
        let _ = ps.generate_sample_from_rng(ped(), &plain, &mut prng, &obs);
        // the x-space call with the shared Gamma coordinate is the partner's LAST call before the sampler under test
        // runs: a single-entry "most recent value" memo is then still holding the partner's value (with the rng call
        // last, the native replay of such a memo found it overwritten and did not reproduce the symbolic difference)
        let _ = ps.generate_sample_from_x_space_point(&px, ped(), &plain, &obs);
        out.prove("partner sampler: rng draws = its get_dimension()", T::rat(prng.k as i64, 1), Rel::Eq, T::rat(pdim as i64, 1));
        let dl = D * pg.num_loops();
        out.prove("partner sampler: get_dimension = 2E-1+DL+(DL mod 2)", T::rat(pdim as i64, 1), Rel::Eq, T::rat((2 * pg.ne() - 1 + dl + dl % 2) as i64, 1));
    }
    let first = call(&x, &plain);
    // history: another point in between, then the same point again, twice
    let _other = call(&y, &plain);
    let second = call(&x, &plain);
    let third = call(&x, &plain);
    let cmp = |out: &mut Outcome<T>, tag: &str, a: &Result<TropicalSampleResult<T, D>, String>, b: &Result<TropicalSampleResult<T, D>, String>| match (a, b) {
        (Ok(a), Ok(b)) => {
            for ((n, p), (_, q)) in outputs(a).into_iter().zip(outputs(b)) {
                out.prove(format!("{}: {}", tag, n), p, Rel::Eq, q);
            }
        }
        (Err(a), Err(b)) if a == b => {}
        (a, b) => out.prove(format!("{}: same kind of result ({:?} vs {:?})", tag, a.as_ref().map(|_| "Ok"), b.as_ref().map(|_| "Ok")), one, Rel::Eq, zero),
    };
    cmp(out, "2nd call = 1st call", &first, &second);
    cmp(out, "3rd call = 1st call", &first, &third);
    // settings do not change the numbers
    for (dbg, md) in [(false, true), (true, false), (true, true)] {
        let r = call(&x, &settings(dbg, md, None));
        cmp(out, &format!("debug={} metadata={}", dbg, md), &first, &r);
    }
    // stability test on with a generous tolerance: same numbers when it passes
    // generate_sample_from_rng = generate_sample_from_x_space_point on the drawn numbers
    let mut rng = HarnessRng::<T> { k: 0, concrete: false, _p: std::marker::PhantomData };
    let obs = Obs::<T> { events: RefCell::new(vec![]) };
    let via_rng = sampler.generate_sample_from_rng(edge_data(), &plain, &mut rng, &obs).map_err(|e| format!("{:?}", e));
    out.prove("rng draws = get_dimension()", T::rat(rng.k as i64, 1), Rel::Eq, T::rat(dim as i64, 1));
    {
        let dl = D * g.num_loops();
        out.prove("get_dimension = 2E-1+DL+(DL mod 2)", T::rat(dim as i64, 1), Rel::Eq, T::rat((2 * g.ne() - 1 + dl + dl % 2) as i64, 1));
    }
    cmp(out, "from_rng = from_x_space_point", &first, &via_rng);
    if let Ok(a) = &first {
        out.twin_opaque("twin: u(x) = u(y)", a.u, Rel::Eq, match &_other { Ok(b) => b.u, Err(_) => zero });
    }
}

impl Harness for C17 {
    fn name(&self) -> String {
        format!("c17/{}/D={}", self.entry.name, self.d)
    }
    fn run<T: Scalar>(&self, out: &mut Outcome<T>) {
        with_dim!(self.d, go, self, out)
    }
    fn rng_tags(&self) -> usize {
        64
    }
    fn n_validate(&self) -> usize {
        1
    }
    fn tol(&self) -> f64 {
        0.0 // the property says bit-identical
    }
    fn ignore_panic(&self, msg: &str) -> bool {
        msg.contains("could not sample edge")
    }
    fn max_paths(&self) -> usize {
        20_000
    }
}

pub fn run(cfg: &RunCfg) -> PartResult {
    let mut total = PartResult {
        part: "symx:C17".into(),
        functions_encoded: vec![
            "SampleGenerator::{generate_sample_from_x_space_point, generate_sample_from_rng}::<Sym> on one shared sampler, call histories of 4-7 calls (real code)".into(),
        ],
        ..Default::default()
    };
    let mut covered = vec![];
    let mut list = entries(cfg.tier, false);
    list.extend(entries(cfg.tier, true));
    for entry in list {
        if entry.ne() > 5 || (cfg.tier == Tier::Quick && entry.ograph().num_loops() >= 3) {
            continue; // without abstraction of the Feynman parameters the L >= 3 determinant branches are slow
        }
        let d = entry.dims[(cfg.seed as usize) % entry.dims.len()];
        covered.push(json!({"graph": entry.name, "D": d}));
        total.merge(check_harness(&C17 { entry, d }, cfg));
    }
    total.bounds = json!({
        "catalogue": covered,
        "histories": "x, y, x, x, then x under 3 other settings combinations, then generate_sample_from_rng — all on one sampler object; every output term of a repeated call must be the same hash-consed term or be proved equal",
        "outside": "concurrent calls from several threads and separate processes (no solver model of threads; the argument there is &self + no interior mutability, not a solver result); graphs with more than 5 edges"
    });
    total.assumptions = vec![
        "term equality (same hash-consed DAG node) implies bit-identical results for any deterministic scalar type".into(),
        "rand::Rng::gen::<f64>() maps a u64 word w to (w >> 11) * 2^-53 (checked natively each run through the validation pass)".into(),
    ];
    total
}
