//! C07 — Feynman parameters follow the sector formula and the tropical normalisation.
use crate::catalogue::{entries, Entry};
use crate::framework::*;
use crate::oracle;
use crate::scalar::*;
use crate::sx::*;
use crate::with_dim;
use momtrop::float::MomTropFloat;
use num::rational::BigRational;
use num::{One, ToPrimitive};
use serde_json::json;

pub struct C07 {
    pub entry: Entry,
    pub d: usize,
}

/// everything the debug log exposes about the sector walk of one sample
pub struct Sector<T> {
    pub xt: Vec<T>,
    pub x: Vec<T>,
    pub ut: T,
    pub vt: T,
    /// edges in removal order
    pub order: Vec<usize>,
}

pub fn sector_of<T: Scalar, const D: usize>(run: &Run<T, D>) -> Option<Sector<T>> {
    let xt = run.logged("momtrop_feynman_parameter_no_rescaling")?.clone();
    let x = run.logged("momtrop_feynman_parameter")?.clone();
    let ut = *run.logged("momtrop_u_trop_no_rescaling")?.first()?;
    let vt = *run.logged("momtrop_v_trop_no_rescaling")?.first()?;
    let order = T::removal_order(&xt);
    Some(Sector { xt, x, ut, vt, order })
}

fn go<T: Scalar, const D: usize>(h: &C07, out: &mut Outcome<T>) {
    let g = h.entry.ograph();
    let routing = routings(&g, 1).remove(0);
    let kin = rat_kin::<T>(&g, D);
    let run = run_sample::<T, D>(&h.entry, &routing, &kin, &settings(true, false, None), None, out);
    let sec = match sector_of(&run) {
        Some(s) => s,
        None => {
            out.structural.push("debug log keys of the sector walk are missing".into());
            return;
        }
    };
    let ne = g.ne();
    let (zero, one) = (T::rat(0, 1), T::rat(1, 1));
    // used only to decide path feasibility cheaply (the log-space goals below see the real terms)
    for (e, xe) in sec.x.iter().enumerate() {
        out.cut(*xe, format!("X{}", e), &["(> {} 0.0)"]);
    }
    if std::env::var("SYMX_TRACE").is_ok() {
        eprintln!("TRACE order {:?} xt {:?}", sec.order, sec.xt.iter().map(|v| v.sym_id()).collect::<Vec<_>>());
    }
    // (i) sector formula: x~_{s_k} = prod_{j<k} xi_j^(1/omega(g_j))
    let mut mask = g.full();
    let mut kappa = one;
    let mut pows: Vec<T> = vec![];
    for (k, &e) in sec.order.iter().enumerate() {
        out.prove_log(format!("sector formula: x~ of the edge removed {}th", k + 1), sec.xt[e], Rel::Eq, kappa);
        mask &= !(1u64 << e);
        if k + 1 < ne {
            let xi = run.x[2 * k + 1];
            let w = g.omega(mask, D);
            let p = xi.powf(&T::big(&(BigRational::one() / w)));
            pows.push(p);
            kappa = kappa * p;
        }
    }
    out.twin_log("twin: x~ of the last removed edge = 1", sec.xt[*sec.order.last().unwrap()], Rel::Eq, one);
    // (ii) the reported tropical polynomials are the largest monomials of U and of F (u_trop*v_trop) at x~
    let _ = &pows;
    let um = oracle::u_monomials(&g);
    let fm = oracle::f_monomials_generic(&g);
    let ub = oracle::dominant(&um, &sec.order);
    let u_best = oracle::monomial(&um[ub], &sec.xt);
    out.prove_log("u_trop (before rescaling) = largest monomial of U", sec.ut, Rel::Eq, u_best);
    for (i, m) in um.iter().enumerate() {
        if i != ub {
            out.prove_log(format!("U monomial {:?} <= u_trop", m), oracle::monomial(m, &sec.xt), Rel::Le, sec.ut);
        }
    }
    if !fm.is_empty() {
        let fb = oracle::dominant(&fm, &sec.order);
        let f_best = oracle::monomial(&fm[fb], &sec.xt);
        out.prove_log("u_trop*v_trop (before rescaling) = largest monomial of F", sec.ut * sec.vt, Rel::Eq, f_best);
        for (i, m) in fm.iter().enumerate() {
            if i != fb {
                out.prove_log(format!("F monomial {:?} <= u_trop*v_trop", m), oracle::monomial(m, &sec.xt), Rel::Le, sec.ut * sec.vt);
            }
        }
        {
            let last = sec.xt[*sec.order.last().unwrap()];
            out.twin_log("twin: v_trop = (x~ of the last removed edge)^2", sec.vt, Rel::Eq, last * last);
        }
    }
    // (iii) common rescaling, and U_tr^(D/2) V_tr^dod = 1 afterwards
    let first = sec.order[0];
    let s = sec.x[first]; // x~ of the first removed edge is 1, so its rescaled parameter is the scale itself
    for e in 0..ne {
        out.prove_log(format!("x[{}] = s * x~[{}]", e, e), sec.x[e], Rel::Eq, s * sec.xt[e]);
    }
    let l = g.num_loops();
    let dod = g.dod(D);
    let mut sl = one;
    for _ in 0..l {
        sl = sl * s;
    }
    let half_d = BigRational::new((D as i64).into(), 2.into());
    let gauge = (sl * sec.ut).powf(&T::big(&half_d)) * (s * sec.vt).powf(&T::big(&dod));
    out.prove_log("after rescaling U_tr^(D/2) * V_tr^dod = 1", gauge, Rel::Eq, one);
    let _ = zero;
    let _ = dod.to_f64();
}

impl Harness for C07 {
    fn name(&self) -> String {
        format!("c07/{}/D={}", self.entry.name, self.d)
    }
    fn run<T: Scalar>(&self, out: &mut Outcome<T>) {
        with_dim!(self.d, go, self, out)
    }
    fn n_validate(&self) -> usize {
        3
    }
    fn ignore_panic(&self, msg: &str) -> bool {
        msg.contains("could not sample edge")
    }
    fn tol(&self) -> f64 {
        1e-9
    }
    fn noise_floor_factor(&self) -> f64 {
        0.0 // monomials and powers only: no cancellation
    }
}

pub fn run(cfg: &RunCfg) -> PartResult {
    let mut total = PartResult {
        part: "symx:C07".into(),
        functions_encoded: vec![
            "sampling::permatuhedral_sampling::<Sym> (kappa update, u_trop/v_trop bookkeeping, rescaling) via generate_sample_from_x_space_point with print_debug_info (feature log)".into(),
            "preprocessing::TropicalSubgraphTable::sample_edge and the table entries loop_number / mass_momentum_spanning / generalized_dod as consumed by it".into(),
        ],
        ..Default::default()
    };
    let mut covered = vec![];
    for entry in entries(cfg.tier, false) {
        if !entry.ograph().connected() {
            continue;
        }
        let dims = if cfg.tier == Tier::Thorough { entry.dims.clone() } else { vec![entry.dims[(cfg.seed as usize) % entry.dims.len()]] };
        for d in dims {
            covered.push(json!({"graph": entry.name, "D": d}));
            total.merge(check_harness(&C07 { entry: entry.clone(), d }, cfg));
        }
    }
    total.bounds = json!({
        "catalogue": covered,
        "claims": [
            "x~ of the k-th removed edge = prod_{j<k} xi_j^(1/omega(g_j)) with omega from the oracle (exact rationals)",
            "u_trop / u_trop*v_trop before rescaling = the monomial of U / F that dominates in the sector, and every other monomial is <= it (xi^(1/omega) abstracted to (0,1])",
            "x = s*x~ with one common s, and (s^L u_trop)^(D/2) (s v_trop)^dod = 1 (algebraic powers, u_trop and v_trop abstracted to positive reals)"
        ],
        "kinematics": "generic: a 2-forest term is present iff it splits the external vertices non-trivially; mass terms for massive edges",
        "outside": "graphs outside the catalogue; non-generic kinematics (vanishing momentum invariants)"
    });
    total.assumptions = vec!["z3 answers trusted".into(), "removal order is read off the creation order of the kappa terms (validated natively against decreasing x~)".into()];
    total
}
