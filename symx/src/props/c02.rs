//! C02 — sample weights are bounded by graph- and kinematics-only constants.
use crate::catalogue::{entries, Entry};
use crate::framework::*;
use crate::oracle;
use crate::scalar::*;
use crate::smt::{run_queries, Answer, Query};
use crate::sx::*;
use crate::with_dim;
use num::rational::BigRational;
use num::{ToPrimitive, Zero};
use serde_json::json;

pub struct C02 {
    pub entry: Entry,
    pub d: usize,
    pub routing: Routing,
}

/// rational kinematics of `rat_kin` as exact rationals (same formulas)
fn rat_kin_exact(g: &oracle::OGraph, d: usize) -> (Vec<Vec<BigRational>>, Vec<BigRational>) {
    let nv = g.vertices().len();
    let ext = g.ext_index();
    let r = |n: i64, dd: i64| BigRational::new(n.into(), dd.into());
    let mut pin = vec![vec![BigRational::zero(); d]; nv];
    if ext.len() >= 2 {
        for dd in 0..d {
            let mut sum = BigRational::zero();
            for (k, &v) in ext.iter().enumerate() {
                if k + 1 < ext.len() {
                    let p = r((2 * k as i64 + 1) * (dd as i64 + 1) * if (k + dd) % 2 == 0 { 1 } else { -1 }, 2 + dd as i64);
                    pin[v][dd] = p.clone();
                    sum += p;
                } else {
                    pin[v][dd] = -sum.clone();
                }
            }
        }
    }
    let m2 = (0..g.ne()).map(|e| if g.massive[e] { let m = r(3 + e as i64, 4); &m * &m } else { BigRational::zero() }).collect();
    (pin, m2)
}

fn go<T: Scalar, const D: usize>(h: &C02, out: &mut Outcome<T>) {
    let g = h.entry.ograph();
    let kin = rat_kin::<T>(&g, D);
    let run = run_sample::<T, D>(&h.entry, &h.routing, &kin, &settings(true, true, None), None, out);
    let (zero, one) = (T::rat(0, 1), T::rat(1, 1));
    let x = run.logged("momtrop_feynman_parameter").expect("feature log").clone();
    for (e, xe) in x.iter().enumerate() {
        out.cut(*xe, format!("X{}", e), &["(> {} 0.0)"]);
    }
    let res = match &run.res {
        Ok(r) => r,
        Err(e) => {
            out.prove(format!("sample-ok ({})", e), one, Rel::Eq, zero);
            return;
        }
    };
    cut_u_inverse(out, &g, &h.routing.sig, &x, res);
    // v is abstracted by the proved relation v * U(x) = F(x)
    out.cut_rel(res.v, "Vcut", vec![(res.v * oracle::u_poly(&g, &x), Rel::Eq, oracle::f_poly(&g, &x, &kin.pin, &run.m2))]);
    let um = oracle::u_monomials(&g);
    let (pin, m2) = rat_kin_exact(&g, D);
    let fm = oracle::f_monomials_rational(&g, &pin, &m2);
    let n_t = T::rat(um.len() as i64, 1);
    // U_tr <= U <= N_T U_tr, U_tr = max monomial
    for m in &um {
        out.prove(format!("U monomial {:?} <= u", m), oracle::monomial(m, &x), Rel::Le, res.u);
    }
    out.prove_any("u <= N_T * (some U monomial)", um.iter().map(|m| (res.u, Rel::Le, n_t * oracle::monomial(m, &x))).collect());
    if fm.is_empty() {
        return;
    }
    let c_min = fm.iter().map(|(_, c)| c.clone()).min().unwrap();
    let c_sum: BigRational = fm.iter().map(|(_, c)| c.clone()).sum();
    let lo = T::big(&(c_min / BigRational::from_integer((um.len() as i64).into())));
    let hi = T::big(&c_sum);
    // (c_min/N_T) V_tr <= V <= C_sum V_tr with V_tr = (max F monomial)/(max U monomial):
    //   for all i: exists j: lo * Fm_i <= v * Um_j      and      for all j: exists i: v * Um_j <= hi * Fm_i
    for (fi, _) in &fm {
        out.prove_any(
            format!("(c_min/N_T) * F monomial {:?} / U_tr <= v", fi),
            um.iter().map(|mj| (lo * oracle::monomial(fi, &x), Rel::Le, res.v * oracle::monomial(mj, &x))).collect(),
        );
    }
    for mj in &um {
        out.prove_any(
            format!("v * U monomial {:?} <= C_sum * F_tr", mj),
            fm.iter().map(|(fi, _)| (res.v * oracle::monomial(mj, &x), Rel::Le, hi * oracle::monomial(fi, &x))).collect(),
        );
    }
    out.prove("v > 0", zero, Rel::Lt, res.v);
    out.twin("twin: u <= (N_T - 1/2) * smallest... u <= first U monomial", res.u, Rel::Le, oracle::monomial(&um[0], &x) * T::rat(1, 2));
}

impl Harness for C02 {
    fn name(&self) -> String {
        format!("c02/{}/D={}/{}", self.entry.name, self.d, self.routing.name)
    }
    fn run<T: Scalar>(&self, out: &mut Outcome<T>) {
        with_dim!(self.d, go, self, out)
    }
    fn n_validate(&self) -> usize {
        2
    }
    fn ignore_panic(&self, msg: &str) -> bool {
        msg.contains("could not sample edge")
    }
}

/// composition lemma (pure arithmetic, in log space): from U_tr <= U <= N U_tr, (c/N) V_tr <= V <= C V_tr
/// and U_tr^(D/2) V_tr^dod = 1 follows N^(-D/2) C^(-dod) <= U^(-D/2) V^(-dod) <= (N/c)^dod
fn composition_lemma(cfg: &RunCfg, half_d: &BigRational, dod: &BigRational) -> (bool, f64) {
    let r = |q: &BigRational| crate::smt::rat_smt(q);
    let text = format!(
        "(set-logic QF_LRA)\n(declare-const lu Real)(declare-const lv Real)(declare-const lut Real)(declare-const lvt Real)\n(declare-const ln Real)(declare-const lc Real)(declare-const lC Real)\n(assert (>= ln 0.0))\n(assert (<= lut lu))(assert (<= lu (+ ln lut)))\n(assert (<= (+ (- lc ln) lvt) lv))(assert (<= lv (+ lC lvt)))\n(assert (= (+ (* {hd} lut) (* {dod} lvt)) 0.0))\n(define-fun lr () Real (- (+ (* {hd} lu) (* {dod} lv))))\n(assert (not (and (<= (- (+ (* {hd} ln) (* {dod} lC))) lr) (<= lr (* {dod} (- ln lc))))))\n(check-sat)\n",
        hd = r(half_d),
        dod = r(dod)
    );
    let (v, st) = run_queries(&cfg.solver, &[Query { label: "composition".into(), text, timeout_s: 30, model_vars: vec![], expect_sat: Some(false) }]);
    (v[0].answer == Answer::Unsat, st.solver_s)
}

pub fn run(cfg: &RunCfg) -> PartResult {
    let mut total = PartResult {
        part: "symx:C02".into(),
        functions_encoded: vec![
            "sampling::sample::<Sym>: u (Cholesky determinant), v (compute_v_polynomial) at the sampled Feynman parameters, via generate_sample_from_x_space_point (real code)".into(),
        ],
        ..Default::default()
    };
    let mut covered = vec![];
    for entry in entries(cfg.tier, false) {
        let g = entry.ograph();
        if g.ne() > 5 && cfg.tier == Tier::Quick {
            continue;
        }
        let d = entry.dims[(cfg.seed as usize) % entry.dims.len()];
        let routing = routings(&g, 1).remove(0);
        covered.push(json!({"graph": entry.name, "D": d, "N_T": g.spanning_trees().len()}));
        total.merge(check_harness(&C02 { entry: entry.clone(), d, routing }, cfg));
        let (ok, secs) = composition_lemma(cfg, &BigRational::new((d as i64).into(), 2.into()), &g.dod(d));
        total.queries_total += 1;
        total.queries_distinct += 1;
        total.solver_s += secs;
        if ok {
            total.queries_unsat += 1;
            total.goals_proved += 1;
        } else {
            total.hard_failures.push(format!("c02/{}: composition lemma not proved", entry.name));
        }
    }
    total.bounds = json!({
        "catalogue": covered,
        "kinematics": "fixed rational masses and external momenta per graph (generic: no vanishing invariant); c_min, C_sum computed exactly from them",
        "claims": [
            "every U monomial <= u and u <= N_T * some U monomial (i.e. U_tr <= U <= N_T U_tr) for all positive Feynman parameters",
            "(c_min/N_T) V_tr <= v <= C_sum V_tr in the form 'for every F monomial there is a U monomial ...' (max encoded by quantifier alternation over finitely many monomials)",
            "composition lemma in log space: these and U_tr^(D/2) V_tr^dod = 1 (C07) imply the stated interval for jacobian/normalisation = u^(-D/2) v^(-dod) (C11)"
        ],
        "outside": "symbolic kinematics (bounds are stated for given masses/momenta); graphs outside the catalogue; f64 cancellation (excluded by the property itself)"
    });
    total.assumptions = vec!["z3 answers trusted".into(), "Feynman parameters abstracted to arbitrary positive reals; u and the inverse abstracted by proved relations (U = Kirchhoff, INV*U = adjugate)".into()];
    total
}
