//! C18 — a serialised sampler restores to one that samples identically (differential symbolic execution).
use crate::catalogue::{entries, Entry};
use crate::framework::*;
use crate::props::c17::outputs;
use crate::scalar::*;
use crate::sx::*;
use crate::with_dim;
use momtrop::vector::Vector;
use momtrop::SampleGenerator;
use serde_json::json;
use std::cell::RefCell;

pub struct C18 {
    pub entry: Entry,
    pub d: usize,
    pub routing: Routing,
    /// false: serde_json value tree (structs as maps); true: sequence-encoding value tree (structs as sequences)
    pub seq: bool,
}

fn go<T: Scalar, const D: usize>(h: &C18, out: &mut Outcome<T>) {
    let g = h.entry.ograph();
    let kin = rat_kin::<T>(&g, D);
    let original = build::<D>(&h.entry, &h.routing.sig);
    // two self-describing, f64-exact formats (no text round trip): serde_json's value tree encodes structs
    // as maps keyed by field name, the harness's own SV tree encodes them as sequences of fields
    let tree = serde_json::to_value(&original).expect("serialise");
    let restored: SampleGenerator<D> = if h.seq {
        let sv = crate::seqfmt::to_sv(&original).expect("serialise (sequence format)");
        match crate::seqfmt::from_sv(sv) {
            Ok(s) => s,
            Err(e) => {
                out.structural.push(format!("deserialisation from the sequence-encoding format failed: {}", e));
                return;
            }
        }
    } else {
        match serde_json::from_value(tree.clone()) {
            Ok(s) => s,
            Err(e) => {
                out.structural.push(format!("deserialisation failed: {}", e));
                return;
            }
        }
    };
    let (zero, one) = (T::rat(0, 1), T::rat(1, 1));
    let num = |v: f64| T::lit(v);
    out.prove("get_dimension", T::rat(restored.get_dimension() as i64, 1), Rel::Eq, T::rat(original.get_dimension() as i64, 1));
    out.prove("get_num_edges", T::rat(restored.get_num_edges() as i64, 1), Rel::Eq, T::rat(original.get_num_edges() as i64, 1));
    if original.get_dod().to_bits() != restored.get_dod().to_bits() {
        out.prove("get_dod bit-identical", num(restored.get_dod()), Rel::Eq, num(original.get_dod()));
        out.structural.push("get_dod differs after the round trip".into());
    }
    let (wa, wb): (Vec<f64>, Vec<f64>) = (original.iter_edge_weights().collect(), restored.iter_edge_weights().collect());
    if wa.iter().map(|x| x.to_bits()).collect::<Vec<_>>() != wb.iter().map(|x| x.to_bits()).collect::<Vec<_>>() {
        out.structural.push("edge weights differ after the round trip".into());
    }
    let tree2 = serde_json::to_value(&restored).expect("serialise");
    if tree != tree2 {
        out.structural.push("re-serialising the restored sampler gives a different value tree (a field is skipped or recomputed)".into());
    }
    let dim = original.get_dimension();
    let x: Vec<T> = (0..dim).map(|i| T::var(&format!("x{}", i))).collect();
    for (i, v) in x.iter().enumerate() {
        out.assume(format!("x{}>0", i), zero, Rel::Lt, *v);
        out.assume(format!("x{}<1", i), *v, Rel::Lt, one);
    }
    let sh = crate::oracle::shifts(&g, h.routing.tree, &h.routing.sig, &kin.pin, &kin.offsets);
    let edge_data = || -> Vec<(Option<T>, Vector<T, D>)> { (0..g.ne()).map(|e| (kin.masses[e], Vector::from_array(std::array::from_fn(|d| sh[e][d])))).collect() };
    let st = settings(false, true, None);
    let obs = Obs::<T> { events: RefCell::new(vec![]) };
    let a = original.generate_sample_from_x_space_point(&x, edge_data(), &st, &obs).map_err(|e| format!("{:?}", e));
    let b = restored.generate_sample_from_x_space_point(&x, edge_data(), &st, &obs).map_err(|e| format!("{:?}", e));
    match (&a, &b) {
        (Ok(a), Ok(b)) => {
            for ((n, p), (_, q)) in outputs(a).into_iter().zip(outputs(b)) {
                out.prove(format!("restored = original: {}", n), p, Rel::Eq, q);
            }
            let (ma, mb) = (a.metadata.as_ref().unwrap(), b.metadata.as_ref().unwrap());
            out.prove("restored = original: lambda", ma.lambda, Rel::Eq, mb.lambda);
            for l in 0..g.num_loops() {
                for d in 0..D {
                    out.prove(format!("restored = original: q[{}][{}]", l, d), ma.q_vectors[l][d], Rel::Eq, mb.q_vectors[l][d]);
                }
            }
            out.twin_opaque("twin: u = 2u", a.u, Rel::Eq, b.u + b.u);
        }
        (Err(a), Err(b)) if a == b => {}
        _ => out.prove("restored and original return the same kind of result", one, Rel::Eq, zero),
    }
}

impl Harness for C18 {
    fn name(&self) -> String {
        format!("c18/{}/D={}/{}/{}", self.entry.name, self.d, self.routing.name, if self.seq { "structs-as-sequences" } else { "structs-as-maps" })
    }
    fn run<T: Scalar>(&self, out: &mut Outcome<T>) {
        with_dim!(self.d, go, self, out)
    }
    fn n_validate(&self) -> usize {
        2
    }
    fn tol(&self) -> f64 {
        0.0 // the property says bit-identical
    }
    fn ignore_panic(&self, msg: &str) -> bool {
        msg.contains("could not sample edge")
    }
}

pub fn run(cfg: &RunCfg) -> PartResult {
    let mut total = PartResult {
        part: "symx:C18".into(),
        functions_encoded: vec![
            "serde Serialize/Deserialize of SampleGenerator, TropicalSubgraphTable, TropicalGraph, TropicalEdge (derive) through serde_json::Value".into(),
            "generate_sample_from_x_space_point::<Sym> on the original and on the restored sampler (differential)".into(),
        ],
        ..Default::default()
    };
    let mut covered = vec![];
    let mut list = entries(cfg.tier, false);
    list.extend(entries(cfg.tier, true));
    for entry in list {
        let g = entry.ograph();
        if (cfg.tier == Tier::Quick && g.num_loops() >= 3) || entry.ne() > 5 {
            continue; // 6-edge graphs (up to 720 sectors, Feynman parameters not abstracted) are outside the claim (DESIGN 13.6)
        }
        let dims = if cfg.tier == Tier::Thorough { entry.dims.clone() } else { vec![entry.dims[(cfg.seed as usize) % entry.dims.len()]] };
        for d in dims {
            for (k, routing) in routings(&g, 2).into_iter().enumerate() {
                covered.push(json!({"graph": entry.name, "D": d, "routing": routing.name}));
                total.merge(check_harness(&C18 { entry: entry.clone(), d, routing, seq: k % 2 == 1 }, cfg));
            }
        }
    }
    // a disconnected graph (two components, two loops): derived fields must survive the round trip as stored
    if let Some(e) = crate::props::c03::awkward().into_iter().find(|e| e.name == "bubble-x-vacuum-bubble") {
        let sig = vec![vec![1, 0], vec![-1, 0], vec![0, 1], vec![0, -1]];
        if e.graph().build_sampler::<3>(sig.clone()).is_ok() {
            for seq in [false, true] {
                let routing = Routing { name: "one loop momentum per component".into(), tree: 0, sig: sig.clone() };
                covered.push(json!({"graph": e.name, "D": 3, "routing": routing.name}));
                total.merge(check_harness(&C18 { entry: e.clone(), d: 3, routing, seq }, cfg));
            }
        } else {
            total.notes.push("the disconnected test graph is not accepted by build_sampler on this tree; skipped".into());
        }
    }
    total.bounds = json!({
        "catalogue": covered,
        "format": "two value-tree formats, both self-describing and f64-exact: serde_json::Value (structs as maps) for the first routing, the harness's SV tree (structs as sequences) for the second",
        "outside": "other serde formats; graphs with more than 5 edges; text round trips that do not preserve f64"
    });
    total.assumptions = vec!["term equality implies bit-identical samples for every deterministic scalar type".into()];
    total
}
