//! C15 — decompose_for_tropical returns the true determinant, inverse and Cholesky factors.
//! Real-arithmetic symbolic execution of `SquareMatrix::<Sym>::decompose_for_tropical`
//! on a fully symbolic symmetric matrix.
use crate::framework::*;
use crate::oracle;
use crate::scalar::*;
use momtrop::matrix::SquareMatrix;
use momtrop::TropicalSamplingSettings;
use serde_json::json;

pub struct C15 {
    pub n: usize,
    /// false: M symbolic symmetric + "every pivot > 0"; true: M = R^T R (R upper triangular, positive diagonal)
    pub rtr: bool,
    /// only the factor / inverse identities (no determinant, no Sylvester link): affordable for n = 7 in the quick tier
    pub light: bool,
}

impl Harness for C15 {
    fn name(&self) -> String {
        format!("c15/n={}/{}{}", self.n, if self.rtr { "M=RtR" } else { "M=sym" }, if self.light { "/inverse-only" } else { "" })
    }
    fn sample_var(&self, name: &str, u: f64) -> f64 {
        let parts: Vec<&str> = name.split('_').collect();
        if parts.len() == 3 && parts[1] == parts[2] {
            if self.rtr { 0.5 + u } else { self.n as f64 + u }
        } else {
            u - 0.5
        }
    }
    fn max_paths(&self) -> usize {
        // the unchanged code has 3 paths; a change that branches on matrix entries must not exhaust memory
        256
    }
    fn timeout_s(&self, tier: Tier) -> u32 {
        match tier {
            Tier::Quick => 60,
            Tier::Thorough => 300,
        }
    }
    fn run<T: Scalar>(&self, out: &mut Outcome<T>) {
        let n = self.n;
        let zero = T::rat(0, 1);
        let one = T::rat(1, 1);
        let mut m: Vec<Vec<T>> = vec![vec![zero; n]; n];
        let mut r: Vec<Vec<T>> = vec![vec![zero; n]; n];
        if self.rtr {
            for i in 0..n {
                for j in i..n {
                    r[i][j] = T::var(&format!("r_{}_{}", i, j));
                }
                out.assume(format!("r{}{}>0", i, i), zero, Rel::Lt, r[i][i]);
            }
            for i in 0..n {
                for j in 0..n {
                    let mut acc = zero;
                    for k in 0..=i.min(j) {
                        acc = acc + r[k][i] * r[k][j];
                    }
                    m[i][j] = acc;
                }
            }
        } else {
            for i in 0..n {
                for j in i..n {
                    let v = T::var(&format!("m_{}_{}", i, j));
                    m[i][j] = v;
                    m[j][i] = v;
                }
            }
        }
        let mut mat = SquareMatrix::new_zeros_from_num(&zero, n);
        for i in 0..n {
            for j in 0..n {
                mat[(i, j)] = m[i][j];
            }
        }
        let settings = TropicalSamplingSettings { matrix_stability_test: None, print_debug_info: false, return_metadata: false };
        let res = mat.decompose_for_tropical(&settings);

        // positive definiteness
        if !self.rtr {
            if T::SYMBOLIC {
                for (k, a) in T::arena_sqrt_args().into_iter().enumerate() {
                    out.assume(format!("pivot{}>0", k), zero, Rel::Lt, a);
                }
            } else {
                for k in 1..=n {
                    out.assume(format!("minor{}>0", k), zero, Rel::Lt, oracle::leading_minor(&m, k));
                }
            }
        }
        let d = match res {
            Err(_) => {
                // an SPD matrix must not be rejected: this path has to be infeasible
                out.prove("spd-not-rejected", one, Rel::Eq, zero);
                return;
            }
            Ok(d) => d,
        };
        let qt = |i: usize, j: usize| d.q_transposed[(i, j)];
        let qti = |i: usize, j: usize| d.q_transposed_inverse[(i, j)];
        let inv = |i: usize, j: usize| d.inverse[(i, j)];
        let delta = |i: usize, j: usize| if i == j { one } else { zero };
        // Sylvester link: pivot_i * minor_{i-1} = minor_i (ties "every pivot > 0" to "all leading minors > 0")
        if !self.rtr && n <= 6 && !self.light {
            let mut prev = one;
            for i in 0..n {
                let mi = oracle::leading_minor(&m, i + 1);
                out.prove(format!("sylvester{}", i), qt(i, i) * qt(i, i) * prev, Rel::Eq, mi);
                prev = mi;
            }
        }
        for i in 0..n {
            out.prove(format!("diag{}>0", i), zero, Rel::Lt, qt(i, i));
            for j in 0..n {
                if j < i {
                    out.prove(format!("upper[{},{}]", i, j), qt(i, j), Rel::Eq, zero);
                }
                if self.rtr {
                    out.prove(format!("qt=R[{},{}]", i, j), qt(i, j), Rel::Eq, r[i][j]);
                }
                let mut a = zero;
                let mut b = zero;
                let mut c = zero;
                for k in 0..n {
                    a = a + qt(k, i) * qt(k, j);
                    b = b + qti(i, k) * qt(k, j);
                    c = c + inv(i, k) * m[k][j];
                }
                out.prove(format!("QtT.Qt=M[{},{}]", i, j), a, Rel::Eq, m[i][j]);
                out.prove(format!("Qti.Qt=I[{},{}]", i, j), b, Rel::Eq, delta(i, j));
                out.prove(format!("inv.M=I[{},{}]", i, j), c, Rel::Eq, delta(i, j));
            }
        }
        if self.light {
            return;
        }
        if self.rtr {
            let mut p = one;
            for i in 0..n {
                p = p * r[i][i] * r[i][i];
            }
            out.prove("det=prod r_ii^2", d.determinant, Rel::Eq, p);
        } else {
            out.prove("det=det(M)", d.determinant, Rel::Eq, oracle::det(&m));
        }
        out.prove("det>0", zero, Rel::Lt, d.determinant);
        // twins: wrong statements that must be refutable under the same assumptions
        if n >= 2 {
            let mut a = zero;
            for k in 0..n {
                a = a + qt(0, k) * qt(1, k); // Qt.QtT instead of QtT.Qt
            }
            out.twin("twin:Qt.QtT=M[0,1]", a, Rel::Eq, m[0][1]);
            let mut c = zero;
            for k in 0..n {
                c = c + qti(k, 0) * qt(k, 1); // transposed inverse factor
            }
            out.twin("twin:QtiT.Qt=I[0,1]", c, Rel::Eq, zero);
        }
        out.twin("twin:det=2det", d.determinant + d.determinant, Rel::Eq, if self.rtr { d.determinant * d.determinant + one } else { oracle::det(&m) });
    }
}

pub fn run(cfg: &RunCfg) -> PartResult {
    let mut total = PartResult {
        part: "symx:C15".into(),
        functions_encoded: vec![
            "momtrop::matrix::SquareMatrix::<Sym>::decompose_for_tropical (real code, T = term-building scalar)".into(),
            "SquareMatrix::{new_zeros, new_zeros_from_num, Index, IndexMut, Mul, Add, Sub} as reached from it".into(),
        ],
        ..Default::default()
    };
    let (ns_sym, ns_rtr): (Vec<usize>, Vec<usize>) = match cfg.tier {
        Tier::Quick => ((1..=6).collect(), (1..=3).collect()),
        Tier::Thorough => ((1..=8).collect(), (1..=4).collect()),
    };
    let mut hs: Vec<C15> = ns_sym.iter().map(|&n| C15 { n, rtr: false, light: false }).collect();
    hs.extend(ns_rtr.iter().map(|&n| C15 { n, rtr: true, light: false }));
    if cfg.tier == Tier::Quick {
        // the heap-spilling sizes (SmallVec inline capacities 36 / 6 / 5 are exceeded from n = 7)
        hs.push(C15 { n: 7, rtr: false, light: true });
    }
    total.merge(check_harnesses(&hs, cfg));
    total.bounds = json!({
        "matrix_dimension_symbolic_symmetric": ns_sym,
        "matrix_dimension_RtR_parametrisation": ns_rtr,
        "arithmetic": "exact reals (QF_NRA); rounding error of T=f64 is outside the claim",
        "inputs": "all real symmetric matrices whose Cholesky pivots are positive (= all SPD matrices, by the sylvester goals for n<=6)",
        "outside": "n > 8; floating-point accuracy vs condition number; matrix_stability_test=Some(_) (C16)"
    });
    total.assumptions = vec![
        "z3 (nlsat) answers are trusted; sample re-checked with z3-new".into(),
        "Sym implements real arithmetic faithfully (validated each run against the native f64 execution)".into(),
        "positive definiteness is expressed as 'every Cholesky pivot > 0' (M symbolic) or M = R^T R (bijective onto SPD)".into(),
    ];
    total
}
