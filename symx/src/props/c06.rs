//! C06 — edge selection inverts the tropical edge distribution and is total on [0,1).
//! Direct symbolic execution of `TropicalSubgraphTable::sample_edge::<Sym>` on every subgraph with
//! at least two edges, bit-precisely for T=f64 (IEEE-754 binary64 semantics) and in real arithmetic.
use crate::catalogue::{entries, Entry};
use crate::framework::*;
use crate::oracle;
use crate::scalar::*;
use crate::smt::EmitOpts;
use crate::sx::*;
use crate::sym::Mode;
use crate::with_dim;
use momtrop::verif::TropicalSubgraphTable;
use num::ToPrimitive;
use serde_json::json;

pub struct C06 {
    pub entry: Entry,
    pub d: usize,
    pub mask: u64,
    pub fp: bool,
}

fn table_of<const D: usize>(entry: &Entry) -> TropicalSubgraphTable {
    let g = entry.ograph();
    let routing = routings(&g, 1).remove(0);
    let sampler = build::<D>(entry, &routing.sig);
    let v = serde_json::to_value(&sampler).expect("serialise sampler");
    serde_json::from_value(v["table"].clone()).expect("SYMX-INTERNAL: table layout changed")
}

fn go<T: Scalar, const D: usize>(h: &C06, out: &mut Outcome<T>) {
    let g = h.entry.ograph();
    let table = table_of::<D>(&h.entry);
    let mut id = table.tropical_graph.get_full_subgraph_id();
    for e in 0..g.ne() {
        if h.mask >> e & 1 == 0 {
            id = id.pop_edge(e);
        }
    }
    let u = T::var("u");
    let zero = T::lit(0.0);
    out.assume("0<=u", zero, Rel::Le, u);
    if h.fp {
        out.assume("u<1", u, Rel::Lt, T::lit(1.0));
    } else {
        // real arithmetic: the f64 table entries sum to 1 only up to rounding (C04: 1e-12)
        out.assume("u<=1-1e-12", u, Rel::Le, T::rat(999_999_999_999, 1_000_000_000_000));
    }
    let (edge, rest) = table.sample_edge(&u, &id);
    // specification: exact rational cumulative sums from the oracle's own J recursion
    let j = oracle::j_table(&g, D);
    let cdf = oracle::edge_cdf(&g, D, &j, h.mask);
    let k = cdf.iter().position(|(e, _)| *e == edge);
    let one = T::lit(1.0);
    match k {
        None => out.prove(format!("selected edge {} belongs to the subgraph", edge), one, Rel::Eq, zero),
        Some(k) if h.fp => {
            // binary64: the running sum is rounded, so the boundaries are known up to 1e-12
            let tol = 1e-12;
            let hi = cdf[k].1.to_f64().unwrap();
            let lo = if k == 0 { 0.0 } else { cdf[k - 1].1.to_f64().unwrap() };
            out.prove(format!("edge {}: u <= c_k + 1e-12", edge), u, Rel::Le, T::lit(hi + tol));
            out.prove(format!("edge {}: c_(k-1) - 1e-12 <= u", edge), T::lit(lo - tol), Rel::Le, u);
            if k > 0 {
                out.twin(format!("twin: edge {} chosen only for u <= c_(k-1) - 1e-9", edge), u, Rel::Le, T::lit(lo - 1e-9));
            }
        }
        Some(k) => {
            // exact arithmetic: the running sums of the table's own entries are exact rationals, whatever the
            // order of operations, so the tie rule is checked exactly: c_(k-1) < u <= c_k
            use num::rational::BigRational;
            let bq = |f: f64| BigRational::from_float(f).expect("finite table entry");
            let jg = bq(table.table[h.mask as usize].j_function);
            let mut acc = BigRational::from_integer(0.into());
            let mut cum: Vec<BigRational> = vec![];
            for (e, _) in &cdf {
                let sub = (h.mask & !(1u64 << e)) as usize;
                acc += bq(table.table[sub].j_function) / (&jg * bq(table.table[sub].generalized_dod));
                cum.push(acc.clone());
            }
            // the table itself agrees with the oracle (C04's subject; asserted here so that a wrong table cannot hide)
            let diff = (&cum[k] - &cdf[k].1).to_f64().unwrap().abs();
            out.prove(format!("edge {}: table running sum within 1e-12 of the exact distribution", edge), T::lit(diff), Rel::Le, T::lit(1e-12));
            let last = k + 1 == cdf.len();
            if !last {
                out.prove(format!("edge {}: u <= running sum (first edge that reaches u)", edge), u, Rel::Le, T::big(&cum[k]));
            }
            if k > 0 {
                out.prove(format!("edge {}: previous running sum < u", edge), T::big(&cum[k - 1]), Rel::Lt, u);
                out.twin(format!("twin: edge {} chosen only for u <= c_(k-1)", edge), u, Rel::Le, T::big(&cum[k - 1]));
            }
        }
    }
    let want = h.mask & !(1u64 << edge);
    out.prove("returned subgraph = subgraph without the edge", T::lit(rest.get_id() as f64), Rel::Eq, T::lit(want as f64));
}

impl Harness for C06 {
    fn name(&self) -> String {
        format!("c06/{}/D={}/g={:#b}/{}", self.entry.name, self.d, self.mask, if self.fp { "f64" } else { "real" })
    }
    fn mode(&self) -> Mode {
        if self.fp { Mode::Fp } else { Mode::Real }
    }
    fn emit_opts(&self) -> EmitOpts {
        EmitOpts { fp: self.fp, ..Default::default() }
    }
    fn uf(&self) -> bool {
        false
    }
    fn run<T: Scalar>(&self, out: &mut Outcome<T>) {
        with_dim!(self.d, go, self, out)
    }
    fn sample_var(&self, _n: &str, u: f64) -> f64 {
        u * 0.999
    }
    fn tol(&self) -> f64 {
        0.0
    }
    fn n_validate(&self) -> usize {
        3
    }
}

/// through `sample`: edge choices consume exactly the coordinates 0,2,..,2E-4 (the last edge none)
pub struct C06Shortcut {
    pub entry: Entry,
    pub d: usize,
}
fn go2<T: Scalar, const D: usize>(h: &C06Shortcut, out: &mut Outcome<T>) {
    let g = h.entry.ograph();
    let routing = routings(&g, 1).remove(0);
    let kin = rat_kin::<T>(&g, D);
    let run = run_sample::<T, D>(&h.entry, &routing, &kin, &settings(true, false, None), None, out);
    if T::SYMBOLIC && run.res.is_ok() {
        let mut used: Vec<String> = vec![];
        for vs in T::atom_vars() {
            // edge choices compare a bare coordinate with a cumulative sum
            for v in vs.iter().filter_map(|v| v.strip_prefix("direct:")).map(|v| v.to_string()) {
                let idx: usize = v[1..].parse().unwrap_or(usize::MAX);
                if idx < 2 * g.ne() - 2 && !used.contains(&v) {
                    used.push(v);
                }
            }
        }
        used.sort_by_key(|v| v[1..].parse::<usize>().unwrap());
        let want: Vec<String> = (0..g.ne() - 1).map(|k| format!("x{}", 2 * k)).collect();
        if used != want {
            out.structural.push(format!("edge choices are decided by coordinates {:?}, expected {:?} (one per removal except the last)", used, want));
        }
    }
    // the removal the sampler actually performs follows the tropical edge distribution: in the sector read off the
    // logged Feynman parameters, the coordinate that chose the k-th removed edge lies between the oracle's exact
    // cumulative sums of the subgraph that was current at that step
    if let Some(xt) = run.logged("momtrop_feynman_parameter_no_rescaling") {
        let order = T::removal_order(xt);
        let j = oracle::j_table(&g, D);
        let mut mask = g.full();
        for (step, &edge) in order.iter().enumerate() {
            if mask.count_ones() >= 2 {
                let cdf = oracle::edge_cdf(&g, D, &j, mask);
                match cdf.iter().position(|(e, _)| *e == edge) {
                    None => out.prove(format!("step {}: removed edge {} belongs to the current subgraph", step, edge), T::rat(1, 1), Rel::Eq, T::rat(0, 1)),
                    Some(k) => {
                        let u = run.x[2 * step];
                        let hi = cdf[k].1.to_f64().unwrap();
                        let lo = if k == 0 { 0.0 } else { cdf[k - 1].1.to_f64().unwrap() };
                        if k + 1 < cdf.len() {
                            out.prove(format!("step {}: edge {} removed only for u <= c_k + 1e-12", step, edge), u, Rel::Le, T::lit(hi + 1e-12));
                        }
                        if k > 0 {
                            out.prove(format!("step {}: edge {} removed only for u >= c_(k-1) - 1e-12", step, edge), T::lit(lo - 1e-12), Rel::Le, u);
                        }
                    }
                }
            }
            mask &= !(1u64 << edge);
        }
    }
    out.prove("placeholder", T::rat(0, 1), Rel::Eq, T::rat(0, 1));
}
impl Harness for C06Shortcut {
    fn name(&self) -> String {
        format!("c06/shortcut/{}/D={}", self.entry.name, self.d)
    }
    fn run<T: Scalar>(&self, out: &mut Outcome<T>) {
        with_dim!(self.d, go2, self, out)
    }
    fn n_validate(&self) -> usize {
        1
    }
    fn ignore_panic(&self, msg: &str) -> bool {
        msg.contains("could not sample edge") // decided by the direct harness above
    }
}

pub fn run(cfg: &RunCfg) -> PartResult {
    let mut total = PartResult {
        part: "symx:C06".into(),
        functions_encoded: vec![
            "preprocessing::TropicalSubgraphTable::sample_edge::<Sym> (real code, called directly through the `verif` re-export) with IEEE-754 binary64 semantics and with real semantics".into(),
            "preprocessing::TropicalSubGraphId::{pop_edge, contains_edges, has_edge}; sampling::permatuhedral_sampling (single-edge shortcut)".into(),
        ],
        ..Default::default()
    };
    let mut covered = vec![];
    let mut list = entries(cfg.tier, false);
    list.extend(entries(cfg.tier, true));
    for entry in list {
        if entry.ne() > 5 {
            continue; // 57 subgraphs x two arithmetics per 6-edge graph did not finish within the thorough cap (DESIGN 13.6): outside the claim
        }
        let dims = if cfg.tier == Tier::Thorough { entry.dims.clone() } else { vec![entry.dims[(cfg.seed as usize) % entry.dims.len()]] };
        for d in dims {
            let n = entry.ne();
            let mut subgraphs = 0;
            let mut batch: Vec<C06> = vec![];
            for mask in 1u64..(1u64 << n) {
                if mask.count_ones() < 2 {
                    continue;
                }
                subgraphs += 1;
                batch.push(C06 { entry: entry.clone(), d, mask, fp: true });
                batch.push(C06 { entry: entry.clone(), d, mask, fp: false });
            }
            total.merge(check_harnesses(&batch, cfg));
            if !entry.rounding {
                total.merge(check_harness(&C06Shortcut { entry: entry.clone(), d }, cfg));
            }
            covered.push(json!({"graph": entry.name, "D": d, "subgraphs_with_>=2_edges": subgraphs}));
        }
    }
    total.bounds = json!({
        "catalogue": covered,
        "u": "one solver variable: every binary64 value in [0,1) (QF_FP, bit-precise) / every real in [0, 1-1e-12]",
        "claims": ["no feasible path reaches the fall-through panic", "edge k is returned only for c_(k-1)-1e-12 <= u <= c_k+1e-12 with c from exact rational arithmetic", "the returned subgraph id is the subgraph without the edge", "edge choices read coordinates 0,2,..,2E-4 only"],
        "outside": "graphs outside the catalogue and catalogue graphs with more than 5 edges; scalar types with other rounding than binary64/real"
    });
    total.assumptions = vec!["z3 QF_FP / QF_NRA answers trusted".into(), "constant folding in Fp mode uses the host's f64 operations, i.e. exactly what T=f64 executes (C20 ties impl MomTropFloat for f64 to them)".into()];
    total
}
