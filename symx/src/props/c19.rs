//! C19 — user precision is preserved: only the Gamma draw narrows to f64.
use crate::catalogue::{entries, Entry};
use crate::framework::*;
use crate::scalar::*;
use crate::sx::*;
use crate::with_dim;
use momtrop::matrix::SquareMatrix;
use momtrop::vector::Vector;
use serde_json::json;

pub struct C19 {
    pub entry: Entry,
    pub d: usize,
}

fn table_constants(v: &serde_json::Value, acc: &mut Vec<f64>) {
    match v {
        serde_json::Value::Number(n) => {
            if let Some(f) = n.as_f64() {
                acc.push(f)
            }
        }
        serde_json::Value::Array(a) => a.iter().for_each(|x| table_constants(x, acc)),
        serde_json::Value::Object(o) => o.values().for_each(|x| table_constants(x, acc)),
        _ => {}
    }
}

fn go<T: Scalar, const D: usize>(h: &C19, out: &mut Outcome<T>) {
    let g = h.entry.ograph();
    let routing = routings(&g, 1).remove(0);
    let kin = sym_kin::<T>(&g, D, false);
    // call history: a sampler with another degree of divergence is sampled at the same point first, so that
    // a value carried over from it (instead of being computed from this sampler's dod) shows up below
    let mut skip_events = 0;
    let mut skip_consts = 0;
    if let Some(pe) = crate::catalogue::partner(&h.entry, D) {
        let pg = pe.ograph();
        let pr = routings(&pg, 1).remove(0);
        let pkin = rat_kin::<T>(&pg, D);
        // at a fixed rational point whose Gamma coordinate is the same placeholder value, so no new decisions
        let pdim = build::<D>(&pe, &pr.sig).get_dimension();
        let px: Vec<T> = (0..pdim).map(|k| T::rat(31 + (k * 7919 % 89) as i64, 181)).collect();
        let _ = run_with_x::<T, D>(&pe, &pr, &pkin, &settings(false, false, None), &px);
        skip_events = T::narrow_log().len();
        skip_consts = T::from_f64_consts().len();
    }
    let run = run_sample::<T, D>(&h.entry, &routing, &kin, &settings(false, true, None), None, out);
    if !T::SYMBOLIC {
        return;
    }
    let ne = g.ne();
    let lam_coord = format!("x{}", 2 * ne - 2);
    // 1. narrowing events
    let events: Vec<_> = T::narrow_log().into_iter().skip(skip_events).collect();
    let tolog: Vec<T> = T::to_f64_log().into_iter().skip(skip_events).collect();
    match &run.res {
        Ok(_) => {
            if events.len() != 1 {
                out.structural.push(format!("{} narrowing events (to_f64 ... from_f64) on an Ok path, expected exactly the Gamma draw", events.len()));
            }
        }
        Err(_) => {
            if events.len() > 1 {
                out.structural.push(format!("{} narrowing events on an error path", events.len()));
            }
        }
    }
    for (args, _) in &events {
        let sym_args: Vec<Vec<String>> = args.iter().map(|a| a.cone_vars().unwrap()).collect();
        let ok = args.len() == 3 && sym_args[0].is_empty() && sym_args[2].is_empty() && sym_args[1] == vec![lam_coord.clone()] && args[1].sym_id() == run.x[2 * ne - 2].sym_id();
        if !ok {
            out.structural.push(format!("narrowing of terms depending on {:?}; only (dod, {}, 5.0) may be narrowed", sym_args, lam_coord));
        }
    }
    for t in &tolog {
        if t.sym_id() != run.x[2 * ne - 2].sym_id() {
            out.structural.push(format!("to_f64 called on a term depending on {:?} with debug output off", t.cone_vars().unwrap()));
        }
    }
    // 2. constants entering through from_f64 are table constants
    let mut allowed: Vec<f64> = vec![];
    table_constants(&serde_json::to_value(&run.sampler).unwrap(), &mut allowed);
    let dod = run.sampler.get_dod();
    let l = g.num_loops();
    allowed.extend([5.0, D as f64 / 2.0, -(D as f64 / 2.0), D as f64 / 2.0 * l as f64 + dod, dod]);
    let allowed_bits: Vec<u64> = allowed.iter().map(|f| f.to_bits()).collect();
    for c in T::from_f64_consts().into_iter().skip(skip_consts) {
        if !allowed_bits.contains(&c) {
            out.structural.push(format!("from_f64({:e}) is not a table constant, D/2, D/2*L+dod or 5.0", f64::from_bits(c)));
        }
    }
    // 3. outputs computed with the user's scalar: no narrowed term in u, v, inverse; only lambda in the momenta
    if let Ok(res) = &run.res {
        let md = res.metadata.as_ref().unwrap();
        let mut pure: Vec<(String, T)> = vec![("u".into(), res.u), ("v".into(), res.v), ("u_trop".into(), res.u_trop), ("v_trop".into(), res.v_trop)];
        for i in 0..l {
            for j in 0..l {
                pure.push((format!("inverse[{},{}]", i, j), md.decompoisiton_result.inverse[(i, j)]));
                pure.push((format!("l_matrix[{},{}]", i, j), md.l_matrix[(i, j)]));
            }
            for d in 0..D {
                pure.push((format!("shift[{}][{}]", i, d), md.shift[i][d]));
                pure.push((format!("q[{}][{}]", i, d), md.q_vectors[i][d]));
            }
        }
        pure.push(("jacobian".into(), res.jacobian));
        for (n, t) in pure {
            if !t.cone_narrows().is_empty() {
                out.structural.push(format!("{} contains a value that went through f64", n));
            }
        }
        for i in 0..l {
            for d in 0..D {
                for nn in res.loop_momenta[i][d].cone_narrows() {
                    if nn.sym_id() != md.lambda.sym_id() {
                        out.structural.push(format!("loop_momenta[{}][{}] contains an f64-narrowed value other than lambda", i, d));
                    }
                }
            }
        }
    }
}

impl Harness for C19 {
    fn name(&self) -> String {
        format!("c19/{}/D={}", self.entry.name, self.d)
    }
    fn run<T: Scalar>(&self, out: &mut Outcome<T>) {
        with_dim!(self.d, go, self, out)
    }
    fn n_validate(&self) -> usize {
        1
    }
    fn ignore_panic(&self, msg: &str) -> bool {
        msg.contains("could not sample edge")
    }
    fn sample_var(&self, name: &str, u: f64) -> f64 {
        if name.starts_with('x') { 0.05 + 0.9 * u } else { 2.0 * u - 1.0 }
    }
}

/// direct calls of the matrix and vector primitives: no narrowing at all
pub struct C19Direct {
    pub n: usize,
}
impl Harness for C19Direct {
    fn name(&self) -> String {
        format!("c19/direct/n={}", self.n)
    }
    fn run<T: Scalar>(&self, out: &mut Outcome<T>) {
        let n = self.n;
        let zero = T::rat(0, 1);
        let mut mat = SquareMatrix::new_zeros_from_num(&zero, n);
        for i in 0..n {
            for j in i..n {
                let v = T::var(&format!("m_{}_{}", i, j));
                mat[(i, j)] = v;
                mat[(j, i)] = v;
            }
        }
        for stab in [None, Some(1e-6)] {
            let _ = mat.decompose_for_tropical(&settings(false, false, stab));
        }
        let a: Vector<T, 3> = Vector::from_array([T::var("a0"), T::var("a1"), T::var("a2")]);
        let b: Vector<T, 3> = Vector::from_array([T::var("b0"), T::var("b1"), T::var("b2")]);
        let s = &(&a + &b) - &a;
        let _ = (&s * T::var("c")).dot(&b) + a.squared();
        if T::SYMBOLIC {
            if !T::to_f64_log().is_empty() || !T::narrow_log().is_empty() {
                out.structural.push("matrix / vector primitives narrow to f64".into());
            }
            for c in T::from_f64_consts() {
                if c != 1e-6f64.to_bits() {
                    out.structural.push(format!("matrix / vector primitives introduce the f64 constant {:e}", f64::from_bits(c)));
                }
            }
        }
        // keep the path alive for the feasibility query
        out.prove("placeholder", zero, Rel::Eq, zero);
    }
    fn sample_var(&self, name: &str, u: f64) -> f64 {
        let p: Vec<&str> = name.split('_').collect();
        if p.len() == 3 && p[1] == p[2] { self.n as f64 + u } else { u - 0.5 }
    }
    fn n_validate(&self) -> usize {
        1
    }
}

pub fn run(cfg: &RunCfg) -> PartResult {
    let mut total = PartResult {
        part: "symx:C19".into(),
        functions_encoded: vec![
            "generate_sample_from_x_space_point::<Sym> (debug off): every to_f64 / from_f64 executed by sampling.rs, matrix.rs, vector.rs, gamma.rs::inverse_gamma_lr on every path".into(),
            "SquareMatrix::<Sym>::decompose_for_tropical (with and without stability test), Vector::<Sym,3> operators, called directly".into(),
        ],
        ..Default::default()
    };
    let mut covered = vec![];
    for entry in entries(cfg.tier, false) {
        let dims = if cfg.tier == Tier::Thorough { entry.dims.clone() } else { vec![entry.dims[(cfg.seed as usize) % entry.dims.len()]] };
        for d in dims {
            covered.push(json!({"graph": entry.name, "D": d}));
            total.merge(check_harness(&C19 { entry: entry.clone(), d }, cfg));
        }
    }
    for n in 1..=3 {
        total.merge(check_harness(&C19Direct { n }, cfg));
    }
    total.bounds = json!({
        "catalogue": covered,
        "observations": "per path: list of to_f64 calls on non-constant terms, list of to_f64...from_f64 narrowings, all from_f64 constants, Narrow nodes in the dependency cone of every output; a path counts only if the solver does not prune it",
        "outside": "print_debug_info = true (narrowing for display is allowed there); scalar types other than the term-building one (the observation is about which trait methods the code calls, which does not depend on T)"
    });
    total.assumptions = vec!["the code reaches f64 only through MomTropFloat::{to_f64, from_f64} (no unsafe, no transmute) — which the trait bound enforces for generic code".into()];
    total
}
