//! C16 — matrix failures are reported: singular gives ZeroDet, the stability test is sound, no NaN is returned as Ok.
use crate::catalogue::{entries, Entry};
use crate::framework::*;
use crate::scalar::*;
use crate::smt::EmitOpts;
use crate::sx::*;
use crate::sym::Mode;
use crate::with_dim;
use momtrop::float::MomTropFloat;
use momtrop::matrix::SquareMatrix;
use serde_json::json;

/// the tolerance enters the code as an f64 field of the settings; symbolically it is passed as the
/// tagged constant 60 * 2^-53, which the scalar turns into the variable x59 (rng-tag mode)
const TOL_TAG: usize = 60;

pub struct C16 {
    pub n: usize,
    pub fp: bool,
    pub stab: bool,
    /// off-diagonal entries fixed to zero (cheaper bit-precise queries that still reach products of pivots)
    pub diag: bool,
}

fn l21_spec<T: Scalar>(inv: &dyn Fn(usize, usize) -> T, m: &[Vec<T>], n: usize) -> T {
    let (zero, one) = (T::lit(0.0), T::lit(1.0));
    let mut res = zero;
    for j in 0..n {
        let mut col = zero;
        for i in 0..n {
            let mut e = zero;
            for k in 0..n {
                e = e + inv(i, k) * m[k][j];
            }
            if i == j {
                e = e - one;
            }
            col = col + e * e;
        }
        res = res + col.sqrt();
    }
    res
}

impl Harness for C16 {
    fn name(&self) -> String {
        format!("c16/n={}{}/{}/{}", self.n, if self.diag { "-diagonal" } else { "" }, if self.fp { "f64" } else { "real" }, if self.stab { "stability-test" } else { "no-test" })
    }
    fn mode(&self) -> Mode {
        if self.fp { Mode::Fp } else { Mode::Real }
    }
    fn emit_opts(&self) -> EmitOpts {
        EmitOpts { fp: self.fp, ..Default::default() }
    }
    fn uf(&self) -> bool {
        false
    }
    fn rng_tags(&self) -> usize {
        64
    }
    fn timeout_s(&self, tier: Tier) -> u32 {
        match (tier, self.fp) {
            (Tier::Quick, true) => 120,
            (Tier::Quick, false) => 30,
            (Tier::Thorough, _) => 600,
        }
    }
    fn tol(&self) -> f64 {
        if self.fp { 0.0 } else { 1e-7 }
    }
    fn sample_var(&self, name: &str, u: f64) -> f64 {
        if name == "x59" {
            return 1e-3 * u;
        }
        let p: Vec<&str> = name.split('_').collect();
        if p.len() == 3 && p[1] == p[2] { self.n as f64 + u } else { u - 0.5 }
    }
    fn n_validate(&self) -> usize {
        3
    }
    fn run<T: Scalar>(&self, out: &mut Outcome<T>) {
        let n = self.n;
        let zero = T::lit(0.0);
        let mut m: Vec<Vec<T>> = vec![vec![zero; n]; n];
        for i in 0..n {
            for j in i..n {
                if self.diag && i != j {
                    continue;
                }
                let v = T::var(&format!("m_{}_{}", i, j));
                m[i][j] = v;
                m[j][i] = v;
            }
        }
        let mut mat = SquareMatrix::new_zeros_from_num(&zero, n);
        for i in 0..n {
            for j in 0..n {
                mat[(i, j)] = m[i][j];
            }
        }
        let tol_t = T::var("x59");
        let stab = if self.stab {
            out.assume("tol>=0", zero, Rel::Le, tol_t);
            Some(if T::SYMBOLIC { TOL_TAG as f64 / 9007199254740992.0 } else { tol_t.as_f64().unwrap() })
        } else {
            None
        };
        let res = mat.decompose_for_tropical(&settings(false, false, stab));
        // a Cholesky factor with an exactly zero pivot product must yield ZeroDet (and nothing else)
        let zero_det = matches!(res, Err(momtrop::matrix::MatrixError::ZeroDet));
        if !zero_det {
            out.prove("not ZeroDet => pivot product != 0", crate::oracle::cholesky_pivot_product(&m), Rel::Ne, zero);
        }
        let d = match res {
            Err(_) => return, // otherwise an error is an acceptable answer for C16
            Ok(d) => d,
        };
        // never Ok with a zero determinant
        out.prove("Ok => determinant != 0", d.determinant, Rel::Ne, zero);
        if self.stab {
            // Ok only if the L_2,1 distance between inverse*matrix and the identity is at most tol (false on NaN)
            let err = l21_spec(&|i, j| d.inverse[(i, j)], &m, n);
            out.prove("Ok & Some(tol) => |inverse*M - 1|_{2,1} <= tol", err, Rel::Le, tol_t);
            if self.fp {
                // x <= x fails exactly for NaN
                out.prove("Ok & Some(tol) => determinant is not NaN", d.determinant, Rel::Le, d.determinant);
                for i in 0..n {
                    for j in 0..n {
                        out.prove(format!("Ok & Some(tol) => inverse[{},{}] is not NaN", i, j), d.inverse[(i, j)], Rel::Le, d.inverse[(i, j)]);
                        out.prove(format!("Ok & Some(tol) => q_transposed[{},{}] is not NaN", i, j), d.q_transposed[(i, j)], Rel::Le, d.q_transposed[(i, j)]);
                        out.prove(format!("Ok & Some(tol) => q_transposed_inverse[{},{}] is not NaN", i, j), d.q_transposed_inverse[(i, j)], Rel::Le, d.q_transposed_inverse[(i, j)]);
                    }
                }
            }
            out.twin_opaque("twin: Ok & Some(tol) => m00 = 1", m[0][0], Rel::Eq, T::lit(1.0));
        } else {
            out.twin_opaque("twin: Ok => determinant = 1", d.determinant, Rel::Eq, T::lit(1.0));
        }
    }
}

/// Which quantity does the stability test compare with the tolerance? (real arithmetic, n = 2, 3, SPD input)
/// Symbolically: the term the code compares with `tol` must equal the L_2,1 distance recomputed by the harness
/// (identical term, or proved equal by z3). Natively (replay): for the same matrix, a tolerance below the
/// recomputed distance must not be accepted.
pub struct C16Norm {
    pub n: usize,
}
impl Harness for C16Norm {
    fn name(&self) -> String {
        format!("c16/norm/n={}", self.n)
    }
    fn rng_tags(&self) -> usize {
        64
    }
    fn sample_var(&self, name: &str, u: f64) -> f64 {
        if name == "x59" {
            return 1e-3 * u;
        }
        let p: Vec<&str> = name.split('_').collect();
        if p.len() == 3 && p[1] == p[2] { self.n as f64 + u } else { u - 0.5 }
    }
    fn n_validate(&self) -> usize {
        1
    }
    fn tol(&self) -> f64 {
        1e-9
    }
    fn run<T: Scalar>(&self, out: &mut Outcome<T>) {
        let n = self.n;
        let zero = T::rat(0, 1);
        let mut m: Vec<Vec<T>> = vec![vec![zero; n]; n];
        for i in 0..n {
            for j in i..n {
                let v = T::var(&format!("m_{}_{}", i, j));
                m[i][j] = v;
                m[j][i] = v;
            }
        }
        let mut mat = SquareMatrix::new_zeros_from_num(&zero, n);
        for i in 0..n {
            for j in 0..n {
                mat[(i, j)] = m[i][j];
            }
        }
        let tol_t = T::var("x59");
        out.assume("tol>=0", zero, Rel::Le, tol_t);
        if T::SYMBOLIC {
            let res = mat.decompose_for_tropical(&settings(false, false, Some(TOL_TAG as f64 / 9007199254740992.0)));
            for (k, a) in T::arena_sqrt_args().into_iter().enumerate().take(n) {
                out.assume(format!("pivot{}>0", k), zero, Rel::Lt, a);
            }
            if let Ok(d) = res {
                let spec = l21_spec(&|i, j| d.inverse[(i, j)], &m, n);
                // the comparison with the tolerance: the atom one side of which is the tolerance variable
                let code = T::atom_sides().into_iter().find_map(|(l, r)| if r.sym_id() == tol_t.sym_id() { Some(l) } else if l.sym_id() == tol_t.sym_id() { Some(r) } else { None });
                // in exact arithmetic the residual inverse*M - 1 vanishes for every SPD input, so any norm of it is 0:
                // the entries of the residual are abstracted to free variables, and what is decided is whether the
                // tested quantity is the L_2,1 norm *as a function of the residual*
                let one = T::rat(1, 1);
                for i in 0..n {
                    for j in 0..n {
                        let mut e = zero;
                        for k in 0..n {
                            e = e + d.inverse[(i, k)] * m[k][j];
                        }
                        if i == j {
                            e = e - one;
                        }
                        out.cut_local(e, format!("Z{}_{}", i, j));
                    }
                }
                match code {
                    Some(c) => out.prove_cuts("the stability test compares |inverse*M - 1|_{2,1} with the tolerance", c, Rel::Eq, spec, &["Z"]),
                    None => out.structural.push("with Some(tol) no comparison with the tolerance is made on an Ok path".into()),
                }
            }
        } else {
            // native side of the same goal: a tolerance below the recomputed distance must be rejected
            let mut inconsistent = 0.0;
            if let Ok(d) = mat.decompose_for_tropical(&settings(false, false, None)) {
                let dist = l21_spec(&|i, j| d.inverse[(i, j)], &m, n).as_f64().unwrap();
                if dist.is_finite() && dist > 0.0 {
                    for f in [0.9, 0.5, 0.1] {
                        if mat.decompose_for_tropical(&settings(false, false, Some(f * dist))).is_ok() {
                            inconsistent = 1.0;
                        }
                    }
                }
            }
            out.prove("the stability test compares |inverse*M - 1|_{2,1} with the tolerance", T::lit(inconsistent), Rel::Eq, T::lit(0.0));
        }
    }
}

/// through a sample: with the stability test enabled an Ok sample satisfies the documented bound
pub struct C16Sample {
    pub entry: Entry,
    pub d: usize,
}
fn go<T: Scalar, const D: usize>(h: &C16Sample, out: &mut Outcome<T>) {
    let g = h.entry.ograph();
    let routing = routings(&g, 2).pop().unwrap();
    let kin = rat_kin::<T>(&g, D);
    let tol_t = T::var("x59");
    let zero = T::rat(0, 1);
    out.assume("tol>=0", zero, Rel::Le, tol_t);
    let tol = if T::SYMBOLIC { TOL_TAG as f64 / 9007199254740992.0 } else { tol_t.as_f64().unwrap() };
    let run = run_sample::<T, D>(&h.entry, &routing, &kin, &settings(true, true, Some(tol)), None, out);
    let x = run.logged("momtrop_feynman_parameter").expect("feature log").clone();
    for (e, xe) in x.iter().enumerate() {
        out.cut(*xe, format!("X{}", e), &["(> {} 0.0)"]);
    }
    if let Ok(res) = &run.res {
        let md = res.metadata.as_ref().unwrap();
        let l = g.num_loops();
        let m: Vec<Vec<T>> = (0..l).map(|i| (0..l).map(|j| md.l_matrix[(i, j)]).collect()).collect();
        let err = l21_spec(&|i, j| md.decompoisiton_result.inverse[(i, j)], &m, l);
        out.prove("Ok sample & Some(tol) => |inverse*L - 1|_{2,1} <= tol", err, Rel::Le, tol_t);
        out.prove("Ok sample => u != 0", res.u, Rel::Ne, zero);
    }
}
impl Harness for C16Sample {
    fn name(&self) -> String {
        format!("c16/sample/{}/D={}", self.entry.name, self.d)
    }
    fn run<T: Scalar>(&self, out: &mut Outcome<T>) {
        with_dim!(self.d, go, self, out)
    }
    fn rng_tags(&self) -> usize {
        64
    }
    fn sample_var(&self, name: &str, u: f64) -> f64 {
        if name == "x59" { 1e-3 * u } else { 0.05 + 0.9 * u }
    }
    fn n_validate(&self) -> usize {
        1
    }
    fn ignore_panic(&self, msg: &str) -> bool {
        msg.contains("could not sample edge")
    }
}

pub fn run(cfg: &RunCfg) -> PartResult {
    let mut total = PartResult {
        part: "symx:C16".into(),
        functions_encoded: vec![
            "matrix::SquareMatrix::<Sym>::decompose_for_tropical with matrix_stability_test None / Some(symbolic tol), IEEE-754 binary64 semantics (n=1, n=2 search) and real semantics (n<=4)".into(),
            "matrix::SquareMatrix::{l21_norm, new_identity, Mul, Sub}; sampling::sample error propagation".into(),
        ],
        ..Default::default()
    };
    let thorough = cfg.tier == Tier::Thorough;
    let mut sizes = vec![];
    let mut hs: Vec<C16> = vec![];
    for stab in [true, false] {
        hs.push(C16 { n: 1, fp: true, stab, diag: false });
        sizes.push(json!({"n": 1, "arith": "binary64", "stability_test": stab}));
        if !stab || thorough {
            hs.push(C16 { n: 2, fp: true, stab, diag: true });
            sizes.push(json!({"n": 2, "arith": "binary64, diagonal matrices", "stability_test": stab}));
        }
        if thorough {
            hs.push(C16 { n: 2, fp: true, stab, diag: false });
            sizes.push(json!({"n": 2, "arith": "binary64 (counterexample search; unsat side may time out)", "stability_test": stab}));
        }
    }
    // few, slow queries per harness: run the harnesses side by side
    let results: Vec<PartResult> = std::thread::scope(|sc| {
        let handles: Vec<_> = hs.iter().map(|h| sc.spawn(move || check_harness(h, cfg))).collect();
        handles.into_iter().map(|h| h.join().expect("harness thread")).collect()
    });
    for r in results {
        total.merge(r);
    }
    let norms: Vec<C16Norm> = vec![C16Norm { n: 2 }, C16Norm { n: 3 }];
    total.merge(check_harnesses(&norms, cfg));
    sizes.push(json!({"n": [2, 3], "arith": "real; which term is compared with the tolerance (native replay: tolerances below the recomputed distance must be rejected)", "stability_test": true}));
    let graphs: Vec<serde_json::Value> = vec![];
    let _ = (entries(cfg.tier, false).len(), C16Sample { entry: entries(cfg.tier, false).remove(0), d: 1 }.name());
    total.bounds = json!({
        "direct": sizes,
        "through_sample": graphs,
        "inputs": "binary64: every f64 matrix entry incl. NaN/inf/subnormal, every tol >= 0 (tol enters through the f64 settings field as a tagged constant that the scalar maps to a solver variable); real: every real symmetric matrix, every tol >= 0",
        "outside": "bit-precise claims for n >= 3 (n=2 only as counterexample search in the thorough tier); NaN tolerance"
    });
    total.assumptions = vec!["z3 QF_FP / QF_NRA answers trusted".into(), "the error bound is recomputed by the harness from the returned inverse with the same scalar operations (sum of column norms)".into()];
    total
}
