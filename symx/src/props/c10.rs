//! C10 — loop momenta: Gaussian map with covariance (V/2λ) L^-1 and centre -L^-1 u.
use crate::catalogue::{entries, Entry};
use crate::framework::*;
use crate::scalar::*;
use crate::sx::*;
use crate::with_dim;
use momtrop::float::MomTropFloat;
use serde_json::json;

pub struct C10 {
    pub entry: Entry,
    pub d: usize,
    pub routing: Routing,
    pub thorough: bool,
}

fn go<T: Scalar, const D: usize>(h: &C10, out: &mut Outcome<T>) {
    let g = h.entry.ograph();
    let kin = sym_kin::<T>(&g, D, false);
    let run = run_sample::<T, D>(&h.entry, &h.routing, &kin, &settings(true, true, None), None, out);
    // the rescaled Feynman parameters are abstracted to arbitrary positive reals on every path,
    // error paths included (so that their infeasibility is decided once, independently of the sector)
    let x = run.logged("momtrop_feynman_parameter").expect("feature log: momtrop_feynman_parameter").clone();
    for (e, xe) in x.iter().enumerate() {
        out.cut(*xe, format!("X{}", e), &["(> {} 0.0)"]);
    }
    let res = match &run.res {
        Ok(r) => r,
        Err(e) => {
            out.prove(format!("sample-ok ({})", e), T::rat(1, 1), Rel::Eq, T::rat(0, 1));
            return;
        }
    };
    let md = res.metadata.as_ref().unwrap();
    let l = g.num_loops();
    let (zero, one, two) = (T::rat(0, 1), T::rat(1, 1), T::rat(2, 1));
    // further abstractions: lambda > 0, Gaussian vectors arbitrary reals
    // v >= 0 (it is F/U): abstracted so that the square root of v/(2 lambda) is defined; the justification
    // is itself a query (it may time out for L >= 2, which is reported; C09 proves v*u = F)
    out.cut(res.v, "V", &["(>= {} 0.0)"]);
    out.cut(md.lambda, "LAM", &[]);
    out.assume("lambda>0", zero, Rel::Lt, md.lambda);
    for i in 0..l {
        for d in 0..D {
            out.cut(md.q_vectors[i][d], format!("Q{}_{}", i, d), &[]);
        }
    }
    // further abstractions, used only by the lemma goals below (prove_cuts)
    for i in 0..l {
        for j in 0..l {
            out.cut_local(md.decompoisiton_result.q_transposed_inverse[(i, j)], format!("S{}_{}", i, j));
            out.cut_local(md.decompoisiton_result.inverse[(i, j)], format!("INV{}_{}", i, j));
        }
    }
    let base = ["X", "LAM", "Q", "V"];
    // shift = L^-1 u  <=>  L shift = u
    for i in 0..l {
        for d in 0..D {
            let mut acc = zero;
            for j in 0..l {
                acc = acc + md.l_matrix[(i, j)] * md.shift[j][d];
            }
            out.prove_cuts(format!("L*shift=u[{}][{}]", i, d), acc, Rel::Eq, md.u_vectors[i][d], &base);
        }
    }
    // Q^T (k + shift) = sqrt(v/(2 lambda)) q
    // built exactly as the code builds it, so that the hash-consed term is shared
    let pref = (res.v / md.lambda / two).sqrt();
    for i in 0..l {
        for d in 0..D {
            let mut acc = zero;
            for j in 0..l {
                acc = acc + md.decompoisiton_result.q_transposed[(i, j)] * (res.loop_momenta[j][d] + md.shift[j][d]);
            }
            out.prove_cuts(format!("QT(k+shift)=pref*q[{}][{}]", i, d), acc, Rel::Eq, pref * md.q_vectors[i][d], &base);
            // lemma: k + shift = pref * Q^-T q, with Q^-T and L^-1 entries abstracted (pure cancellation)
            let mut sq = zero;
            for j in 0..l {
                sq = sq + md.decompoisiton_result.q_transposed_inverse[(i, j)] * md.q_vectors[j][d];
            }
            out.prove_cuts(format!("k+shift=pref*Qti*q[{}][{}]", i, d), res.loop_momenta[i][d] + md.shift[i][d], Rel::Eq, pref * sq, &["X", "LAM", "Q", "V", "S", "INV"]);
        }
    }
    // lemma: Q^-1 L Q^-T = I  (Qti^T... entrywise: sum_kl Qti[k][i] L[k][l] Qti[l][j]), the covariance statement
    for i in 0..l {
        for j in i..l {
            let mut acc = zero;
            for k in 0..l {
                for m in 0..l {
                    acc = acc + md.decompoisiton_result.q_transposed_inverse[(k, i)] * md.l_matrix[(k, m)] * md.decompoisiton_result.q_transposed_inverse[(m, j)];
                }
            }
            out.prove_cuts(format!("QtiT*L*Qti=I[{}][{}]", i, j), acc, Rel::Eq, if i == j { one } else { zero }, &["X"]);
        }
    }
    // sum_e x_e (|q_e|^2 + m_e^2) = v (1 + |q|^2 / (2 lambda))
    let mut lhs = zero;
    for e in 0..g.ne() {
        let mut qe2 = zero;
        for d in 0..D {
            let mut qe = run.shifts[e][d];
            for j in 0..l {
                if h.routing.sig[e][j] != 0 {
                    qe = qe + T::rat(h.routing.sig[e][j] as i64, 1) * res.loop_momenta[j][d];
                }
            }
            qe2 = qe2 + qe * qe;
        }
        lhs = lhs + x[e] * (qe2 + run.m2[e]);
    }
    let mut q2 = zero;
    for i in 0..l {
        for d in 0..D {
            q2 = q2 + md.q_vectors[i][d] * md.q_vectors[i][d];
        }
    }
    // the composite identity is attempted for one loop in the quick tier (for L >= 2 it follows from the lemmas above
    // and C09's v = c - u.L^-1.u; the thorough tier attempts it for every graph and reports what z3 answers)
    if l == 1 || h.thorough {
        out.prove_cuts("sum x(|q_e|^2+m^2)=v(1+|q|^2/2lambda)", lhs, Rel::Eq, res.v * (one + q2 / (two * md.lambda)), &["X", "LAM", "Q"]);
    }
    out.twin_cuts("twin:sum=v(1+|q|^2/lambda)", lhs, Rel::Eq, res.v * (one + q2 / md.lambda), &base);
    if l >= 2 {
        // transposed factor: Q (k+shift) instead of Q^T (k+shift)
        let mut acc = zero;
        for j in 0..l {
            acc = acc + md.decompoisiton_result.q_transposed[(j, 0)] * (res.loop_momenta[j][0] + md.shift[j][0]);
        }
        out.twin_cuts("twin:Q(k+shift)=pref*q[0][0]", acc, Rel::Eq, pref * md.q_vectors[0][0], &base);
    }
}

impl Harness for C10 {
    fn name(&self) -> String {
        format!("c10/{}/D={}/{}", self.entry.name, self.d, self.routing.name)
    }
    fn run<T: Scalar>(&self, out: &mut Outcome<T>) {
        with_dim!(self.d, go, self, out)
    }
    fn n_validate(&self) -> usize {
        2
    }
    fn sample_var(&self, name: &str, u: f64) -> f64 {
        if name.starts_with('x') { 0.05 + 0.9 * u } else { 2.0 * u - 1.0 }
    }
    fn ignore_panic(&self, msg: &str) -> bool {
        msg.contains("could not sample edge")
    }
}

pub fn run(cfg: &RunCfg) -> PartResult {
    let mut total = PartResult {
        part: "symx:C10".into(),
        functions_encoded: vec![
            "momtrop::SampleGenerator::generate_sample_from_x_space_point::<Sym> -> sampling::sample (real code)".into(),
            "sampling::{compute_loop_momenta, compute_only_shift, compute_u_vectors, compute_v_polynomial}, matrix::decompose_for_tropical".into(),
        ],
        ..Default::default()
    };
    let mut covered = vec![];
    let mut list = entries(cfg.tier, false);
    // two loops in D = 5, 6: the Vector code paths for D > 4 together with cross terms between loops
    list.push(crate::catalogue::banana(2, 5));
    list.push(crate::catalogue::banana(2, 6));
    for entry in list {
        let g = entry.ograph();
        let d = *entry.dims.iter().min().unwrap();
        let nr = if g.ne() >= 6 { 1 } else if g.num_loops() >= 3 { 2 } else { 3 };
        for routing in routings(&g, nr) {
            covered.push(json!({"graph": entry.name, "E": entry.ne(), "L": g.num_loops(), "D": d, "routing": routing.name}));
            total.merge(check_harness(&C10 { entry: entry.clone(), d, routing, thorough: cfg.tier == Tier::Thorough }, cfg));
        }
    }
    total.bounds = json!({
        "catalogue": covered,
        "symbolic": "Feynman parameters (cut, >0), Gaussian vectors (cut, free reals), lambda (cut, >0), masses, external momenta",
        "arithmetic": "exact reals",
        "outside": "graphs not in the catalogue; D other than the smallest accepted per graph; rounding; the value of lambda itself (C12)"
    });
    total.assumptions = vec!["z3 answers trusted".into(), "lambda > 0 (C12's subject) is assumed".into()];
    total
}
