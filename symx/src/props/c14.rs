//! C14 — each hypercube coordinate is consumed exactly once, in one statistical role.
use crate::catalogue::{entries, Entry};
use crate::framework::*;
use crate::scalar::*;
use crate::sx::*;
use crate::with_dim;
use serde_json::json;

#[derive(Clone, Copy, PartialEq, Debug)]
pub enum Variant {
    /// exactly get_dimension() coordinates: no index panic; dimension formula; roles; extra coordinates ignored
    Exact,
    /// one coordinate fewer: every Ok path must be impossible (the last coordinate is read)
    OneFewer,
    /// coordinate i replaced by a fresh variable in a second run: the results must be able to differ
    Influence(usize),
}

pub struct C14 {
    pub entry: Entry,
    pub d: usize,
    pub variant: Variant,
}

fn outputs<T: Scalar, const D: usize>(r: &momtrop::TropicalSampleResult<T, D>) -> Vec<(String, T)> {
    let mut v = vec![("u".to_string(), r.u), ("v".to_string(), r.v), ("jacobian".to_string(), r.jacobian), ("u_trop".to_string(), r.u_trop), ("v_trop".to_string(), r.v_trop)];
    for (l, k) in r.loop_momenta.iter().enumerate() {
        for d in 0..D {
            v.push((format!("k[{}][{}]", l, d), k[d]));
        }
    }
    v
}

fn go<T: Scalar, const D: usize>(h: &C14, out: &mut Outcome<T>) {
    let g = h.entry.ograph();
    let routing = routings(&g, 1).remove(0);
    let kin = rat_kin::<T>(&g, D);
    let ne = g.ne();
    let l = g.num_loops();
    let (zero, one) = (T::rat(0, 1), T::rat(1, 1));
    match h.variant {
        Variant::Exact => {
            let run = run_sample::<T, D>(&h.entry, &routing, &kin, &settings(true, true, None), None, out);
            let dl = D * l;
            out.prove("get_dimension=2E-1+DL+(DL mod 2)", T::rat(run.dim as i64, 1), Rel::Eq, T::rat((2 * ne - 1 + dl + dl % 2) as i64, 1));
            let res = match &run.res {
                Ok(r) => r,
                Err(_) => return,
            };
            let head: Vec<String> = (0..2 * ne - 2).map(|i| format!("x{}", i)).collect();
            // roles (syntactic dependency cones; only meaningful in the symbolic run)
            if T::SYMBOLIC {
                for key in ["momtrop_feynman_parameter_no_rescaling", "momtrop_feynman_parameter"] {
                    for (e, xe) in run.logged(key).expect("feature log").iter().enumerate() {
                        let cv = xe.cone_vars().unwrap();
                        if let Some(bad) = cv.iter().find(|v| !head.contains(v)) {
                            out.structural.push(format!("{}[{}] depends on {} which is not one of the first 2E-2 coordinates", key, e, bad));
                        }
                    }
                }
                let md = res.metadata.as_ref().unwrap();
                let lam_cone = md.lambda.cone_vars().unwrap();
                if lam_cone.iter().any(|v| *v != format!("x{}", 2 * ne - 2)) {
                    out.structural.push(format!("lambda depends on {:?}, expected only x{}", lam_cone, 2 * ne - 2));
                }
                let t = 2 * ne - 1;
                for i in 0..l {
                    for d in 0..D {
                        let n = i * D + d;
                        let want = vec![format!("x{}", t + 2 * (n / 2)), format!("x{}", t + 2 * (n / 2) + 1)];
                        let got = md.q_vectors[i][d].cone_vars().unwrap();
                        if got.iter().any(|v| !want.contains(v)) {
                            out.structural.push(format!("gaussian component [{}][{}] depends on {:?}, expected {:?}", i, d, got, want));
                        }
                    }
                }
            }
            // extra coordinates are ignored: a second call with three more coordinates gives the same terms
            let mut o2 = Outcome::<T>::new();
            let run2 = run_sample::<T, D>(&h.entry, &routing, &kin, &settings(true, true, None), Some(run.dim + 3), &mut o2);
            out.assumes.extend(o2.assumes);
            match &run2.res {
                Ok(r2) => {
                    for ((n, a), (_, b)) in outputs(res).into_iter().zip(outputs(r2)) {
                        out.prove(format!("extra coordinates ignored: {}", n), a, Rel::Eq, b);
                    }
                }
                Err(e) => out.prove(format!("extra coordinates ignored (second call failed: {})", e), one, Rel::Eq, zero),
            }
            // roles, solver version: changing only coordinates >= 2E-2 leaves the Feynman parameters unchanged
            let x3: Vec<T> = (0..run.dim).map(|i| if i < 2 * ne - 2 { run.x[i] } else { T::var(&format!("y{}", i)) }).collect();
            for (i, v) in x3.iter().enumerate().skip(2 * ne - 2) {
                out.assume(format!("y{}>0", i), zero, Rel::Lt, *v);
                out.assume(format!("y{}<1", i), *v, Rel::Lt, one);
            }
            let run3 = run_with_x::<T, D>(&h.entry, &routing, &kin, &settings(true, true, None), &x3);
            if let (Some(a), Some(b)) = (run.logged("momtrop_feynman_parameter"), run3.1.iter().find(|(k, _)| k == "momtrop_feynman_parameter").map(|(_, v)| v)) {
                for e in 0..ne {
                    out.prove(format!("x[{}] independent of coordinates >= 2E-2", e), a[e], Rel::Eq, b[e]);
                }
            }
        }
        Variant::OneFewer => {
            let sampler = build::<D>(&h.entry, &routing.sig);
            let dim = sampler.get_dimension();
            let run = run_sample::<T, D>(&h.entry, &routing, &kin, &settings(false, false, None), Some(dim - 1), out);
            if run.res.is_ok() {
                // returning Ok without having read coordinate dim-1 must be impossible
                out.prove("last coordinate is read (Ok with dim-1 coordinates impossible)", one, Rel::Eq, zero);
            }
        }
        Variant::Influence(i) => {
            let run = run_sample::<T, D>(&h.entry, &routing, &kin, &settings(false, false, None), None, out);
            let yi = T::var(&format!("y{}", i));
            out.assume(format!("y{}>0", i), zero, Rel::Lt, yi);
            out.assume(format!("y{}<1", i), yi, Rel::Lt, one);
            let x2: Vec<T> = (0..run.dim).map(|k| if k == i { yi } else { run.x[k] }).collect();
            let run2 = run_with_x::<T, D>(&h.entry, &routing, &kin, &settings(false, false, None), &x2);
            if let (Ok(a), Ok(b)) = (&run.res, &run2.0) {
                let mut acc = zero;
                for ((_, p), (_, q)) in outputs(a).into_iter().zip(outputs(b)) {
                    acc = acc + (p - q) * (p - q);
                }
                out.witness(format!("coordinate {} has no influence", i), acc, Rel::Eq, zero);
            }
        }
    }
}

impl Harness for C14 {
    fn name(&self) -> String {
        format!("c14/{}/D={}/{:?}", self.entry.name, self.d, self.variant)
    }
    fn run<T: Scalar>(&self, out: &mut Outcome<T>) {
        with_dim!(self.d, go, self, out)
    }
    fn n_validate(&self) -> usize {
        2
    }
    fn ignore_panic(&self, msg: &str) -> bool {
        // OneFewer: the index panic is the expected behaviour; everywhere: edge-selection totality is C06's
        msg.contains("could not sample edge") || (self.variant == Variant::OneFewer && msg.contains("index out of bounds"))
    }
}

pub fn run(cfg: &RunCfg) -> PartResult {
    let mut total = PartResult {
        part: "symx:C14".into(),
        functions_encoded: vec![
            "generate_sample_from_x_space_point::<Sym> -> sampling::sample, permatuhedral_sampling, sample_q_vectors (real code)".into(),
            "mimic_rng::MimicRng::get_random_number; preprocessing::TropicalSubgraphTable::{get_num_variables, sample_edge}".into(),
        ],
        ..Default::default()
    };
    let mut covered = vec![];
    let mut list = entries(cfg.tier, false);
    // Gaussian pairs straddling loop vectors need odd D and three loops
    list.push(crate::catalogue::banana(3, 3));
    list.push(crate::catalogue::banana(3, 1));
    for entry in list {
        if entry.ne() > 5 {
            continue; // Feynman parameters are not abstracted here: 6-edge graphs are outside the claim (DESIGN 13.6)
        }
        let dims: Vec<usize> = if cfg.tier == Tier::Thorough { entry.dims.clone() } else { vec![entry.dims[(cfg.seed as usize) % entry.dims.len()]] };
        for d in dims {
            let l = entry.ograph().num_loops();
            let dim = 2 * entry.ne() - 1 + d * l + (d * l) % 2;
            let influence = entry.ne() <= if cfg.tier == Tier::Thorough { 5 } else { 4 };
            covered.push(json!({"graph": entry.name, "D": d, "dimension": dim, "influence_checked": influence}));
            total.merge(check_harness(&C14 { entry: entry.clone(), d, variant: Variant::Exact }, cfg));
            total.merge(check_harness(&C14 { entry: entry.clone(), d, variant: Variant::OneFewer }, cfg));
            if influence {
                let batch: Vec<C14> = (0..dim).map(|i| C14 { entry: entry.clone(), d, variant: Variant::Influence(i) }).collect();
                total.merge(check_harnesses(&batch, cfg));
            }
        }
    }
    total.bounds = json!({
        "catalogue": covered,
        "claims": [
            "with exactly get_dimension() coordinates no feasible path ends in an index panic; get_dimension() = 2E-1+DL+(DL mod 2)",
            "with one coordinate fewer no feasible path returns Ok",
            "three extra coordinates: every output is the same term (hash-consed) or proved equal",
            "Feynman parameters depend only on the first 2E-2 coordinates, lambda only on coordinate 2E-2, each Gaussian component only on its pair (dependency cones on every path + solver self-composition for the Feynman parameters)",
            "every coordinate can change the result: solver witness on some feasible path, replayed natively"
        ],
        "outside": "graphs/D outside the catalogue, catalogue graphs with more than 5 edges; statistical independence itself is the mathematical consequence, not checked"
    });
    total.assumptions = vec!["z3 answers trusted".into(), "dependency = syntactic cone of the term DAG built by the real code (over-approximates semantic dependency)".into()];
    total
}
