//! `Scalar`: the two instantiations every harness is written against.
//!  * `Sym`  — symbolic run: variables are solver variables, goals become SMT assertions;
//!  * `f64`  — native run of the very same harness at a concrete assignment
//!             (solver model or validation point): replay and encoder validation.
use crate::sym::{self, Sym};
use momtrop::float::MomTropFloat;
use std::cell::RefCell;
use std::collections::HashMap;

thread_local! {
    pub static MODEL: RefCell<HashMap<String, f64>> = RefCell::new(HashMap::new());
    /// variables the native run asked for that the model did not contain
    pub static MISSING: RefCell<Vec<String>> = RefCell::new(Vec::new());
}

pub fn set_model(m: &HashMap<String, f64>) {
    MODEL.with(|c| *c.borrow_mut() = m.clone());
}

pub trait Scalar: MomTropFloat + Copy + 'static {
    const SYMBOLIC: bool;
    fn var(name: &str) -> Self;
    /// exact rational literal (rounded for f64)
    fn rat(n: i64, d: i64) -> Self;
    /// literal f64
    fn lit(v: f64) -> Self;
    /// exact rational constant (rounded natively)
    fn big(r: &num::rational::BigRational) -> Self;
    fn sym_id(&self) -> Option<u32>;
    fn as_f64(&self) -> Option<f64>;
    /// values handed to a `Logger::write` call: node ids narrowed by to_f64 (Sym) / the numbers (f64)
    fn capture_logged(js: &serde_json::Value) -> Vec<Self>;
    /// k-th 64-bit word of the harness RNG: tags (k+1)<<11 symbolically, a mixing function natively
    fn rng_word(k: u64) -> u64;
    /// symbolic run: (arguments, result) of every narrowing through f64 so far
    fn narrow_log() -> Vec<(Vec<Self>, Self)> {
        vec![]
    }
    /// symbolic run: every non-constant term on which to_f64 was called so far
    fn to_f64_log() -> Vec<Self> {
        vec![]
    }
    /// symbolic run: bit patterns of all constants that entered through from_f64
    fn from_f64_consts() -> Vec<u64> {
        vec![]
    }
    /// rank of each value in removal order: creation order of the terms (Sym) / decreasing value (f64)
    fn removal_order(vals: &[Self]) -> Vec<usize>;
    /// symbolic run: the two sides of every comparison decided so far
    fn atom_sides() -> Vec<(Self, Self)> {
        vec![]
    }
    /// symbolic run: for every branch decision so far, the variables its atom depends on
    fn atom_vars() -> Vec<Vec<String>> {
        vec![]
    }
    /// symbolic run: names of the variables the term depends on (syntactic cone)
    fn cone_vars(&self) -> Option<Vec<String>> {
        None
    }
    /// symbolic run: is there a Narrow node in the cone of the term?
    fn cone_narrows(&self) -> Vec<Self> {
        vec![]
    }
    /// symbolic run: arguments of every square root taken so far (empty natively)
    fn arena_sqrt_args() -> Vec<Self> {
        vec![]
    }
}

impl Scalar for Sym {
    const SYMBOLIC: bool = true;
    fn var(name: &str) -> Self {
        sym::var(name)
    }
    fn rat(n: i64, d: i64) -> Self {
        sym::konst(sym::rat(n, d))
    }
    fn lit(v: f64) -> Self {
        sym::kf(v)
    }
    fn big(r: &num::rational::BigRational) -> Self {
        sym::konst(r.clone())
    }
    fn sym_id(&self) -> Option<u32> {
        Some(self.0)
    }
    fn as_f64(&self) -> Option<f64> {
        None
    }
    fn capture_logged(_js: &serde_json::Value) -> Vec<Self> {
        sym::CTX.with(|c| std::mem::take(&mut c.borrow_mut().pending_narrow)).into_iter().map(Sym).collect()
    }
    fn rng_word(k: u64) -> u64 {
        (k + 1) << 11
    }
    fn removal_order(vals: &[Self]) -> Vec<usize> {
        // kappa of the k-th removed edge is a product of k-1 factors xi^(1/omega): order by the number of factors
        fn factors(nodes: &[sym::Node], i: u32) -> usize {
            match &nodes[i as usize] {
                sym::Node::Mul(a, b) => factors(nodes, *a) + factors(nodes, *b),
                sym::Node::Const(_) | sym::Node::CF(_) => 0,
                _ => 1,
            }
        }
        let counts: Vec<usize> = sym::CTX.with(|c| {
            let c = c.borrow();
            vals.iter().map(|v| factors(&c.nodes, v.0)).collect()
        });
        let mut idx: Vec<usize> = (0..vals.len()).collect();
        idx.sort_by_key(|i| counts[*i]);
        idx
    }
    fn narrow_log() -> Vec<(Vec<Self>, Self)> {
        sym::CTX.with(|c| c.borrow().narrow_events.iter().map(|(a, r)| (a.iter().map(|i| Sym(*i)).collect(), Sym(*r))).collect())
    }
    fn to_f64_log() -> Vec<Self> {
        sym::CTX.with(|c| c.borrow().to_f64_log.iter().map(|i| Sym(*i)).collect())
    }
    fn from_f64_consts() -> Vec<u64> {
        sym::CTX.with(|c| c.borrow().from_f64_consts.clone())
    }
    fn atom_sides() -> Vec<(Self, Self)> {
        sym::CTX.with(|c| c.borrow().taken.iter().map(|(a, _)| { let [l, r] = a.nodes(); (Sym(l), Sym(r)) }).collect())
    }
    fn atom_vars() -> Vec<Vec<String>> {
        sym::CTX.with(|c| {
            let c = c.borrow();
            c.taken
                .iter()
                .map(|(a, _)| {
                    // a comparison of a bare coordinate with something else is reported as that coordinate alone
                    for n in a.nodes() {
                        if let sym::Node::Var(v) = &c.nodes[n as usize] {
                            return vec![format!("direct:{}", v)];
                        }
                    }
                    crate::smt::vars_in_cone(&c.nodes, &a.nodes()).into_iter().collect()
                })
                .collect()
        })
    }
    fn cone_vars(&self) -> Option<Vec<String>> {
        Some(sym::CTX.with(|c| crate::smt::vars_in_cone(&c.borrow().nodes, &[self.0]).into_iter().collect()))
    }
    fn cone_narrows(&self) -> Vec<Self> {
        sym::CTX.with(|c| {
            let c = c.borrow();
            crate::smt::cone(&c.nodes, &[self.0], &std::collections::HashMap::new())
                .into_iter()
                .filter(|i| matches!(c.nodes[*i as usize], sym::Node::Narrow(..)))
                .map(Sym)
                .collect()
        })
    }
    fn arena_sqrt_args() -> Vec<Self> {
        sym::CTX.with(|c| {
            c.borrow().nodes.iter().filter_map(|n| if let sym::Node::Sqrt(a) = n { Some(Sym(*a)) } else { None }).collect()
        })
    }
}

impl Scalar for f64 {
    const SYMBOLIC: bool = false;
    fn var(name: &str) -> Self {
        MODEL.with(|c| match c.borrow().get(name) {
            Some(v) => *v,
            None => {
                MISSING.with(|m| m.borrow_mut().push(name.to_string()));
                0.5
            }
        })
    }
    fn rat(n: i64, d: i64) -> Self {
        n as f64 / d as f64
    }
    fn lit(v: f64) -> Self {
        v
    }
    fn big(r: &num::rational::BigRational) -> Self {
        num::ToPrimitive::to_f64(r).unwrap()
    }
    fn sym_id(&self) -> Option<u32> {
        None
    }
    fn as_f64(&self) -> Option<f64> {
        Some(*self)
    }
    fn rng_word(k: u64) -> u64 {
        // the word whose rand::Rng::gen::<f64>() image is (the 53-bit truncation of) the model's x_k
        let v = <f64 as Scalar>::var(&format!("x{}", k));
        ((v * 9007199254740992.0) as u64) << 11
    }
    fn removal_order(vals: &[Self]) -> Vec<usize> {
        let mut idx: Vec<usize> = (0..vals.len()).collect();
        idx.sort_by(|a, b| vals[*b].partial_cmp(&vals[*a]).unwrap_or(std::cmp::Ordering::Equal));
        idx
    }
    fn capture_logged(js: &serde_json::Value) -> Vec<Self> {
        match js {
            serde_json::Value::Array(a) => a.iter().map(|v| v.as_f64().unwrap_or(f64::NAN)).collect(),
            v => vec![v.as_f64().unwrap_or(f64::NAN)],
        }
    }
}

#[derive(Clone, Copy, Debug, PartialEq, Eq)]
pub enum Rel {
    Eq,
    Le,
    Lt,
    Ne,
}

/// `lhs rel rhs` must hold. `scale` (native replay only) is the magnitude the
/// tolerance is relative to (defaults to max(|lhs|,|rhs|)).
#[derive(Clone, Debug)]
pub struct Goal<T> {
    pub name: String,
    pub rel: Rel,
    pub lhs: T,
    pub rhs: T,
    pub scale: Option<T>,
    /// per-goal override of the pow encoding
    pub pow: Option<crate::smt::PowEnc>,
    /// if set: of the declared cuts, apply only those whose name starts with one of these prefixes
    pub only_cuts: Option<Vec<String>>,
    /// alternatives: the goal holds if the main relation or any of these holds
    pub alts: Vec<(T, Rel, T)>,
    /// decide in log space (all terms positive; products/powers become linear)
    pub loglin: bool,
}

pub fn goal<T: Scalar>(name: impl Into<String>, lhs: T, rel: Rel, rhs: T) -> Goal<T> {
    Goal { name: name.into(), rel, lhs, rhs, scale: None, pow: None, only_cuts: None, alts: vec![], loglin: false }
}

/// evaluate a goal natively: Some(message) if violated beyond `tol` (relative)
pub fn native_violation(g: &Goal<f64>, tol: f64) -> Option<String> {
    native_violation_floor(g, tol, 0.0)
}

/// `floor`: absolute slack (differences below it are rounding noise of quantities that are zero analytically)
pub fn native_violation_floor(g: &Goal<f64>, tol: f64, floor: f64) -> Option<String> {
    if !g.alts.is_empty() {
        let mut all = vec![(g.lhs, g.rel, g.rhs)];
        all.extend(g.alts.iter().cloned());
        let mut msgs = vec![];
        for (l, rel, r) in all {
            let single = Goal { name: g.name.clone(), rel, lhs: l, rhs: r, scale: g.scale, pow: None, only_cuts: None, alts: vec![], loglin: false };
            match native_violation_floor(&single, tol, floor) {
                None => return None,
                Some(m) => msgs.push(m),
            }
        }
        return Some(format!("no alternative holds: {}", msgs.join(" | ")));
    }
    let (a, b) = (g.lhs, g.rhs);
    let sc = g.scale.unwrap_or_else(|| a.abs().max(b.abs())).abs().max(f64::MIN_POSITIVE);
    let bad = match g.rel {
        Rel::Eq | Rel::Le if a.to_bits() == b.to_bits() => false,
        // IEEE: NaN != x holds, every ordered comparison with NaN fails
        Rel::Ne if a.is_nan() || b.is_nan() => false,
        _ if a.is_nan() || b.is_nan() => true,
        // infinities: equal only if identical; never within a tolerance of anything else
        Rel::Eq if a.is_infinite() || b.is_infinite() => a != b,
        Rel::Le if a.is_infinite() || b.is_infinite() => !(a <= b),
        Rel::Eq => a != b && (a - b).abs() > tol * sc + floor,
        Rel::Le => !(a <= b) && a - b > tol * sc + floor,
        Rel::Lt => !(a < b),
        Rel::Ne => a == b,
    };
    if bad {
        Some(format!("{}: lhs={:e} rhs={:e} rel={:?} scale={:e}", g.name, a, b, g.rel, sc))
    } else {
        None
    }
}
