//! `Scalar`: the two instantiations every harness is written against.
//!  * `Sym`  — symbolic run: variables are solver variables, goals become SMT assertions;
//!  * `f64`  — native run of the very same harness at a concrete assignment
//!             (solver model or validation point): replay and encoder validation.
use crate::sym::{self, Sym};
use momtrop::float::MomTropFloat;
use std::cell::RefCell;
use std::collections::HashMap;

thread_local! { pub static MODEL: RefCell<HashMap<String, f64>> = RefCell::new(HashMap::new()); }

pub fn set_model(m: &HashMap<String, f64>) {
    MODEL.with(|c| *c.borrow_mut() = m.clone());
}

pub trait Scalar: MomTropFloat + Copy + 'static {
    const SYMBOLIC: bool;
    fn var(name: &str) -> Self;
    /// exact rational literal (rounded for f64)
    fn rat(n: i64, d: i64) -> Self;
    /// literal f64
    fn lit(v: f64) -> Self;
    fn sym_id(&self) -> Option<u32>;
    fn as_f64(&self) -> Option<f64>;
    /// symbolic run: arguments of every square root taken so far (empty natively)
    fn arena_sqrt_args() -> Vec<Self> {
        vec![]
    }
}

impl Scalar for Sym {
    const SYMBOLIC: bool = true;
    fn var(name: &str) -> Self {
        sym::var(name)
    }
    fn rat(n: i64, d: i64) -> Self {
        sym::konst(sym::rat(n, d))
    }
    fn lit(v: f64) -> Self {
        sym::kf(v)
    }
    fn sym_id(&self) -> Option<u32> {
        Some(self.0)
    }
    fn as_f64(&self) -> Option<f64> {
        None
    }
    fn arena_sqrt_args() -> Vec<Self> {
        sym::CTX.with(|c| {
            c.borrow().nodes.iter().filter_map(|n| if let sym::Node::Sqrt(a) = n { Some(Sym(*a)) } else { None }).collect()
        })
    }
}

impl Scalar for f64 {
    const SYMBOLIC: bool = false;
    fn var(name: &str) -> Self {
        MODEL.with(|c| {
            *c.borrow()
                .get(name)
                .unwrap_or_else(|| panic!("SYMX-INTERNAL: variable {} missing from model", name))
        })
    }
    fn rat(n: i64, d: i64) -> Self {
        n as f64 / d as f64
    }
    fn lit(v: f64) -> Self {
        v
    }
    fn sym_id(&self) -> Option<u32> {
        None
    }
    fn as_f64(&self) -> Option<f64> {
        Some(*self)
    }
}

#[derive(Clone, Copy, Debug, PartialEq, Eq)]
pub enum Rel {
    Eq,
    Le,
    Lt,
    Ne,
}

/// `lhs rel rhs` must hold. `scale` (native replay only) is the magnitude the
/// tolerance is relative to (defaults to max(|lhs|,|rhs|)).
#[derive(Clone, Debug)]
pub struct Goal<T> {
    pub name: String,
    pub rel: Rel,
    pub lhs: T,
    pub rhs: T,
    pub scale: Option<T>,
}

pub fn goal<T: Scalar>(name: impl Into<String>, lhs: T, rel: Rel, rhs: T) -> Goal<T> {
    Goal { name: name.into(), rel, lhs, rhs, scale: None }
}

/// evaluate a goal natively: Some(message) if violated beyond `tol` (relative)
pub fn native_violation(g: &Goal<f64>, tol: f64) -> Option<String> {
    let (a, b) = (g.lhs, g.rhs);
    let sc = g.scale.unwrap_or_else(|| a.abs().max(b.abs())).abs().max(f64::MIN_POSITIVE);
    let bad = match g.rel {
        _ if a.is_nan() || b.is_nan() => true,
        Rel::Eq => (a - b).abs() > tol * sc,
        Rel::Le => a - b > tol * sc,
        Rel::Lt => !(a < b),
        Rel::Ne => a == b,
    };
    if bad {
        Some(format!("{}: lhs={:e} rhs={:e} rel={:?} scale={:e}", g.name, a, b, g.rel, sc))
    } else {
        None
    }
}
