//! Shared infrastructure for checks that go through `SampleGenerator::generate_sample_from_x_space_point`.
use crate::catalogue::Entry;
use crate::framework::Outcome;
use crate::oracle::{self, OGraph};
use crate::scalar::*;
use momtrop::log::Logger;
use momtrop::vector::Vector;
use momtrop::{SampleGenerator, TropicalSampleResult, TropicalSamplingSettings};
use std::cell::RefCell;

pub struct Obs<T> {
    pub events: RefCell<Vec<(String, Vec<T>)>>,
}
impl<T: Scalar> Logger for Obs<T> {
    fn write<S: serde::Serialize>(&self, msg: &str, data: &S) {
        let js = serde_json::to_value(data).unwrap_or(serde_json::Value::Null);
        self.events.borrow_mut().push((msg.to_string(), T::capture_logged(&js)));
    }
}

#[derive(Clone, Debug)]
pub struct Routing {
    pub name: String,
    /// spanning tree used for the momentum-conserving shifts
    pub tree: u64,
    pub sig: Vec<Vec<isize>>,
}

/// up to `n` loop-momentum routings: fundamental basis, orientation flip on another tree, unimodular recombination
pub fn routings(g: &OGraph, n: usize) -> Vec<Routing> {
    let trees = g.spanning_trees();
    let t0 = trees[0];
    let t1 = *trees.last().unwrap();
    let l = g.num_loops();
    let mut out = vec![Routing { name: "fundamental(tree0)".into(), tree: t0, sig: g.fundamental_signature(t0) }];
    if l >= 3 && n >= 2 {
        // the same cycles in the opposite order: the sparsity pattern of L (cycles sharing no edge) moves
        let mut s = g.fundamental_signature(t0);
        for row in s.iter_mut() {
            row.reverse();
        }
        out.push(Routing { name: "fundamental(tree0), cycles in reverse order".into(), tree: t0, sig: s });
    }
    if n >= 2 && out.len() < n {
        let mut s = g.fundamental_signature(t1);
        for row in s.iter_mut() {
            row[0] = -row[0];
        }
        out.push(Routing { name: "fundamental(last tree), cycle 0 reversed".into(), tree: t1, sig: s });
    }
    if n >= 3 && l >= 2 && out.len() < n {
        let mut s = g.fundamental_signature(t0);
        for row in s.iter_mut() {
            row[0] += row[1];
        }
        out.push(Routing { name: "tree0, k0 -> k0 + k1".into(), tree: t1, sig: s });
    }
    if n >= 4 && l >= 2 && out.len() < n {
        // k0 -> k0 - k1 on the other tree: where two cycles share an edge one of the two recombinations
        // produces a signature entry of modulus 2
        let mut s = g.fundamental_signature(t1);
        for row in s.iter_mut() {
            row[0] -= row[1];
        }
        out.push(Routing { name: "last tree, k0 -> k0 - k1".into(), tree: t0, sig: s });
    }
    out
}

pub struct Kin<T> {
    /// incoming external momentum per vertex index (D components; zero for non-external vertices)
    pub pin: Vec<Vec<T>>,
    pub masses: Vec<Option<T>>,
    /// constant offsets of the loop momenta
    pub offsets: Vec<Vec<T>>,
}

/// symbolic kinematics: external momenta P{v}_{d} (last external fixed by momentum conservation),
/// masses m{e}, optional loop-momentum offsets a{c}_{d}
pub fn sym_kin<T: Scalar>(g: &OGraph, d: usize, offsets: bool) -> Kin<T> {
    let zero = T::rat(0, 1);
    let nv = g.vertices().len();
    let ext = g.ext_index();
    let mut pin = vec![vec![zero; d]; nv];
    if ext.len() >= 2 {
        for dd in 0..d {
            let mut sum = zero;
            for (k, &v) in ext.iter().enumerate() {
                if k + 1 < ext.len() {
                    let p = T::var(&format!("P{}_{}", v, dd));
                    pin[v][dd] = p;
                    sum = sum + p;
                } else {
                    pin[v][dd] = -sum;
                }
            }
        }
    }
    let masses = (0..g.ne()).map(|e| if g.massive[e] { Some(T::var(&format!("m{}", e))) } else { None }).collect();
    let l = g.num_loops();
    let offs = if offsets { (0..l).map(|c| (0..d).map(|dd| T::var(&format!("a{}_{}", c, dd))).collect()).collect() } else { vec![] };
    Kin { pin, masses, offsets: offs }
}

/// fixed rational kinematics ("generic": no accidental zeros)
pub fn rat_kin<T: Scalar>(g: &OGraph, d: usize) -> Kin<T> {
    let zero = T::rat(0, 1);
    let nv = g.vertices().len();
    let ext = g.ext_index();
    let mut pin = vec![vec![zero; d]; nv];
    if ext.len() >= 2 {
        for dd in 0..d {
            let mut sum = zero;
            for (k, &v) in ext.iter().enumerate() {
                if k + 1 < ext.len() {
                    let p = T::rat((2 * k as i64 + 1) * (dd as i64 + 1) * if (k + dd) % 2 == 0 { 1 } else { -1 }, 2 + dd as i64);
                    pin[v][dd] = p;
                    sum = sum + p;
                } else {
                    pin[v][dd] = -sum;
                }
            }
        }
    }
    let masses = (0..g.ne()).map(|e| if g.massive[e] { Some(T::rat(3 + e as i64, 4)) } else { None }).collect();
    Kin { pin, masses, offsets: vec![] }
}

pub struct Run<T: Scalar, const D: usize> {
    pub sampler: SampleGenerator<D>,
    pub dim: usize,
    pub x: Vec<T>,
    pub shifts: Vec<Vec<T>>,
    pub m2: Vec<T>,
    pub res: Result<TropicalSampleResult<T, D>, String>,
    pub log: Vec<(String, Vec<T>)>,
}
impl<T: Scalar, const D: usize> Run<T, D> {
    pub fn logged(&self, key: &str) -> Option<&Vec<T>> {
        self.log.iter().find(|(k, _)| k == key).map(|(_, v)| v)
    }
}

pub fn build<const D: usize>(entry: &Entry, sig: &[Vec<isize>]) -> SampleGenerator<D> {
    match entry.graph().build_sampler::<D>(sig.to_vec()) {
        Ok(s) => s,
        Err(e) => panic!("SYMX-INTERNAL: catalogue entry {} D={} rejected by build_sampler: {}", entry.name, D, e),
    }
}

pub fn settings(debug: bool, metadata: bool, stab: Option<f64>) -> TropicalSamplingSettings {
    TropicalSamplingSettings { matrix_stability_test: stab, print_debug_info: debug, return_metadata: metadata }
}

/// one call of the public sampling API with variables x0.. (assumed in (0,1))
pub fn run_sample<T: Scalar, const D: usize>(
    entry: &Entry,
    routing: &Routing,
    kin: &Kin<T>,
    st: &TropicalSamplingSettings,
    nx: Option<usize>,
    out: &mut Outcome<T>,
) -> Run<T, D> {
    let g = entry.ograph();
    let sampler = build::<D>(entry, &routing.sig);
    let dim = sampler.get_dimension();
    let n = nx.unwrap_or(dim);
    let (zero, one) = (T::rat(0, 1), T::rat(1, 1));
    let x: Vec<T> = (0..n).map(|i| T::var(&format!("x{}", i))).collect();
    for (i, xi) in x.iter().enumerate() {
        out.assume(format!("x{}>0", i), zero, Rel::Lt, *xi);
        out.assume(format!("x{}<1", i), *xi, Rel::Lt, one);
    }
    let sh = oracle::shifts(&g, routing.tree, &routing.sig, &kin.pin, &kin.offsets);
    let edge_data: Vec<(Option<T>, Vector<T, D>)> =
        (0..g.ne()).map(|e| (kin.masses[e], Vector::from_array(std::array::from_fn(|d| sh[e][d])))).collect();
    let m2: Vec<T> = kin.masses.iter().map(|m| m.map_or(zero, |m| m * m)).collect();
    let obs = Obs { events: RefCell::new(vec![]) };
    let res = sampler.generate_sample_from_x_space_point(&x, edge_data, st, &obs).map_err(|e| format!("{:?}", e));
    Run { sampler, dim, x, shifts: sh, m2, res, log: obs.events.into_inner() }
}

/// dispatch on the (runtime) space-time dimension
#[macro_export]
macro_rules! with_dim {
    ($d:expr, $f:ident, $($a:expr),*) => {
        match $d {
            1 => $f::<T, 1>($($a),*),
            2 => $f::<T, 2>($($a),*),
            3 => $f::<T, 3>($($a),*),
            4 => $f::<T, 4>($($a),*),
            5 => $f::<T, 5>($($a),*),
            6 => $f::<T, 6>($($a),*),
            d => panic!("SYMX-INTERNAL: dimension {} not supported", d),
        }
    };
}

/// Abstraction of the linear algebra behind a sample (all justified by separate queries on every path):
/// the rescaled Feynman parameters become arbitrary positive reals X_e, the determinant becomes a
/// fresh U with U = Kirchhoff(X), and (for L >= 2) the inverse entries become fresh INV_ij with
/// INV_ij * U = adjugate(L_spec)_ij.
pub fn cut_u_inverse<T: Scalar, const D: usize>(
    out: &mut Outcome<T>,
    g: &OGraph,
    sig: &[Vec<isize>],
    x: &[T],
    res: &TropicalSampleResult<T, D>,
) {
    let uspec = oracle::u_poly(g, x);
    out.cut_rel(res.u, "Ucut", vec![(res.u, Rel::Eq, uspec)]);
    let l = g.num_loops();
    if l >= 2 {
        if let Some(md) = res.metadata.as_ref() {
            let adj = oracle::adjugate(&oracle::l_spec(sig, x));
            for i in 0..l {
                for j in 0..l {
                    let n = md.decompoisiton_result.inverse[(i, j)];
                    out.cut_rel(n, format!("INV{}_{}", i, j), vec![(n * uspec, Rel::Eq, adj[i][j])]);
                }
            }
        }
    }
}

/// a further call on the same sampler configuration with explicit coordinates (no assumptions recorded)
pub fn run_with_x<T: Scalar, const D: usize>(
    entry: &Entry,
    routing: &Routing,
    kin: &Kin<T>,
    st: &TropicalSamplingSettings,
    x: &[T],
) -> (Result<TropicalSampleResult<T, D>, String>, Vec<(String, Vec<T>)>) {
    let g = entry.ograph();
    let sampler = build::<D>(entry, &routing.sig);
    let sh = oracle::shifts(&g, routing.tree, &routing.sig, &kin.pin, &kin.offsets);
    let edge_data: Vec<(Option<T>, Vector<T, D>)> =
        (0..g.ne()).map(|e| (kin.masses[e], Vector::from_array(std::array::from_fn(|d| sh[e][d])))).collect();
    let obs = Obs { events: RefCell::new(vec![]) };
    let res = sampler.generate_sample_from_x_space_point(x, edge_data, st, &obs).map_err(|e| format!("{:?}", e));
    (res, obs.events.into_inner())
}
