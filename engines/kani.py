"""kani engine — run `cargo kani` proof harnesses of /verif/kani-harness against /repo's working tree."""
import os, re, subprocess, time

HARNESSES = {
    # argument -> (harness name, uses the dimension feature, what it covers)
    "C05": ("c05_accepts_iff_no_divergent_proper_subgraph", True),
    "C03table": ("c03_table_entries_follow_the_definition", True),
    "C03ids": ("c03_subgraph_id_bit_operations", False),
    "C04": ("c04_j_recursion_and_normalisation", True),
    "C12wrapper": ("c12_wrapper_never_returns_nan_as_ok", False),
}

STUBS = [
    "momtrop::verif::TropicalGraph::get_loop_number -> reads a symbolic array indexed by the subset mask (every assignment of loop numbers <= 2)",
    "momtrop::verif::TropicalGraph::is_mass_momentum_spanning -> reads a symbolic bool array indexed by the subset mask",
    "statrs::function::gamma::gamma -> injective tag x + 16",
    "alloc::fmt::format -> empty string (error message text is not the subject)",
]


def run(arg, tier, seed, work, repo):
    t0 = time.time()
    name, dimf = HARNESSES[arg]
    res = {"part": "kani:" + arg, "functions_encoded": [], "bounds": {}, "assumptions": [], "stubs": [], "queries_total": 0, "queries_distinct": 0,
           "queries_unsat": 0, "queries_sat": 0, "queries_inconclusive": 0, "goals_proved": 0, "solver_s": 0.0, "samples": [], "violations": [],
           "inconclusive": [], "hard_failures": [], "notes": [], "kani_harnesses": 1, "kani_checks": 0}
    cmd = ["cargo", "kani", "--target-dir", os.path.join(work, "target-kani-" + arg), "-Z", "stubbing", "--harness", name]
    dim = None
    feats = []
    if dimf and tier == "quick":
        dim = 1 + (seed + 2) % 6
        feats.append("dim_%d" % dim)
    wsel = None
    if arg in ("C03table", "C04"):
        # symbolic weights make the formula equalities intractable for CBMC (no result in 50 min):
        # the weights are concretised from the seed, everything else stays symbolic
        feats.append("concrete_w")
        wsel = seed % 6
    if feats:
        cmd += ["--features", ",".join(feats)]
    cap = 1500 if tier == "quick" else 5400
    env = dict(os.environ, CARGO_NET_OFFLINE="true")
    if wsel is not None:
        env["KANI_W"] = str(wsel)
    try:
        r = subprocess.run(["timeout", str(cap)] + cmd, cwd=os.path.join(os.path.dirname(os.path.dirname(os.path.abspath(__file__))), "kani-harness"),
                           env=env, stdout=subprocess.PIPE, stderr=subprocess.STDOUT, text=True)
        out = r.stdout
    except Exception as e:  # noqa
        res["hard_failures"].append("cargo kani could not be started: %s" % e)
        return res
    logdir = os.path.join(work, "kani_logs")
    os.makedirs(logdir, exist_ok=True)
    open(os.path.join(logdir, "%s.%s.log" % (arg, tier)), "w").write(out)
    checks = re.findall(r"^Check \d+: (.*)\n\t - Status: (\w+)\n\t - Description: \"(.*)\"\n\t - Location: (.*)$", out, re.M)
    res["kani_checks"] = len(checks)
    res["queries_total"] = res["queries_distinct"] = len(checks)
    ok = [c for c in checks if c[1] == "SUCCESS"]
    bad = [c for c in checks if c[1] == "FAILURE"]
    other = [c for c in checks if c[1] not in ("SUCCESS", "FAILURE")]
    res["queries_unsat"] = res["goals_proved"] = len(ok)
    res["queries_sat"] = len(bad)
    res["queries_inconclusive"] = len(other)
    m = re.search(r"Verification Time: ([0-9.]+)s", out)
    if m:
        res["solver_s"] = float(m.group(1))
    for c in (bad + ok)[:3]:
        res["samples"].append({"kani_check": c[0], "status": c[1], "description": c[2], "location": c[3]})
    res["functions_encoded"] = {
        "C05": ["preprocessing::TropicalSubgraphTable::generate_from_tropical, TropicalGraph::{from_graph, compute_weight_sum, recursive_fill_j_function, get_full_subgraph_id}, TropicalSubGraphId::* (compiled by Kani from /repo)"],
        "C03table": ["preprocessing::TropicalGraph::from_graph, TropicalSubgraphTable::generate_from_tropical (table assembly)"],
        "C03ids": ["preprocessing::TropicalSubGraphId::{new (via get_full_subgraph_id), get_id, pop_edge, is_empty, has_one_edge, contains_edges, has_edge}"],
        "C04": ["preprocessing::TropicalGraph::recursive_fill_j_function, cached_factor assembly in generate_from_tropical"],
        "C12wrapper": ["gamma::inverse_gamma_lr::<f64> with the kernel inverse_gamma_lr_impl replaced by an arbitrary f64"],
    }[arg]
    res["stubs"] = STUBS if arg in ("C05", "C03table", "C04") else (["momtrop::gamma::inverse_gamma_lr_impl -> kani::any::<f64>()"] if arg == "C12wrapper" else ["momtrop::verif::TropicalGraph::get_loop_number -> 0"])
    res["bounds"] = {
        "C05": "E = 2 edges, every assignment of loop numbers (<= 2) and spanning flags to the 4 subsets, weights in [1/8, 8], any mass pattern and vertex labels, D = %s; unwind 6 with unwinding assertions" % (dim if dim else "1..6 symbolic"),
        "C03table": "E = 2, every assignment of loop numbers/flags, masses, labels; weights concretised (table entry %s of 6, from VERIF_SEED), D = %s" % (wsel, dim if dim else "1..6 symbolic"),
        "C04": "E = 2, every assignment of loop numbers/flags; weights concretised (table entry %s of 6), D = %s" % (wsel, dim if dim else "1..6 symbolic"),
        "C03ids": "num_edges 1..6 symbolic, any edge index; unwind 8 with unwinding assertions",
        "C12wrapper": "every f64 a, p, eps and every f64 kernel result",
    }[arg]
    res["assumptions"] = ["CBMC 6.11 / CaDiCaL verdicts trusted; Kani's default checks (panics, overflow, bounds, NaN on arithmetic, unwinding assertions) are on", "the listed stubs"]
    if "VERIFICATION:- SUCCESSFUL" in out and not bad:
        pass
    elif "VERIFICATION:- FAILED" in out or bad:
        for c in bad[:6]:
            res["violations"].append({"goal": c[2], "site": "kani/" + name, "witness_class": "kani-check-failed",
                                      "desc": "Kani check %s FAILED: \"%s\" at %s (abstract counterexample over stubbed graph routines; see work/kani_logs)" % (c[0], c[2], c[3]),
                                      "replay": {"kind": "kani", "harness": name, "check": c[0]}, "needs_native_replay": True})
        if not bad:
            res["hard_failures"].append("Kani reported VERIFICATION FAILED without a failed check (out of memory or unwinding?): see work/kani_logs/%s.%s.log" % (arg, tier))
    else:
        res["hard_failures"].append("Kani did not finish (%ds cap) or could not build the harness: %s" % (cap, out[-300:].replace("\n", " ")))
    res["wall_s"] = time.time() - t0
    return res
