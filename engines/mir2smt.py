"""mir2smt — translate loop-free MIR bodies of /repo's current source to SMT-LIB and decide them with z3.

The MIR is dumped with the pre-installed nightly (`cargo +nightly rustc -- -Zunpretty=mir`) from a scratch
copy of /repo's working tree on every run. Any statement or call form this translator does not know makes
the run INCONCLUSIVE (exit 2 of the check): a refactor can never be silently mis-translated.
"""
import json, os, re, shutil, struct, subprocess, tempfile, time, math

F64 = "(_ FloatingPoint 11 53)"


class Unsupported(Exception):
    pass


def dump_mir(work, repo):
    scratch = tempfile.mkdtemp(prefix="mir2smt_", dir="/tmp")
    try:
        subprocess.run(["rsync", "-a", "--exclude", "target", "--exclude", ".git", repo + "/", scratch + "/"], check=True)
        env = dict(os.environ, CARGO_NET_OFFLINE="true")
        t = time.time()
        r = subprocess.run(["cargo", "+nightly", "rustc", "--offline", "--lib", "--target-dir", os.path.join(work, "target-mir"), "--",
                            "-Zunpretty=mir", "-C", "debug-assertions=off", "-C", "overflow-checks=on"],
                           cwd=scratch, env=env, stdout=subprocess.PIPE, stderr=subprocess.PIPE, text=True)
        if r.returncode != 0:
            raise Unsupported("MIR dump failed: " + r.stderr[-800:])
        src = {f: open(os.path.join(scratch, "src", f)).read() for f in os.listdir(os.path.join(scratch, "src")) if f.endswith(".rs")}
        return r.stdout, src, time.time() - t
    finally:
        shutil.rmtree(scratch, ignore_errors=True)


def split_functions(mir):
    """name -> (signature, {bb: [lines]})"""
    fns = {}
    cur = None
    for line in mir.splitlines():
        m = re.match(r"^(const) (.*?): .*\{$", line) or re.match(r"^(fn) (.*?) -> .*\{$", line) or re.match(r"^(fn) (.*)\{$", line)
        if m and not line.startswith(" "):
            header = line
            name = re.sub(r"\(.*", "", m.group(2)).strip()
            cur = {"header": header, "blocks": {}, "bb": None}
            fns.setdefault(name, []).append(cur)
            continue
        if cur is None:
            continue
        if line.startswith("}"):
            cur = None
            continue
        mb = re.match(r"^    (bb\d+)(?: \(cleanup\))?: \{$", line)
        if mb:
            cur["bb"] = mb.group(1)
            cur["blocks"][cur["bb"]] = []
            continue
        if line.startswith("    }"):
            cur["bb"] = None
            continue
        if cur["bb"] and line.strip():
            cur["blocks"][cur["bb"]].append(line.strip())
    return fns


def fp_const_bits(bits):
    return "((_ to_fp 11 53) #x%016x)" % bits


def fp_lit(v):
    return fp_const_bits(struct.unpack("<Q", struct.pack("<d", v))[0])


class Exec:
    """symbolic execution of one straight-line path through a MIR body"""

    def __init__(self, fn, params, promoted):
        self.fn = fn
        self.env = dict(params)      # local -> smt term (or ('ref', local) / ('range', lo, hi, inclusive))
        self.promoted = promoted
        self.decls = []
        self.asserts = []            # path condition
        self.ufs = set()
        self.trace = []
        self.width = {}              # local -> bit width of integer locals narrower than 64

    def operand(self, s):
        s = s.strip()
        m = re.match(r"^(?:copy|move) \(\*(_\d+)\)$", s)
        if m:
            v = self.env[m.group(1)]
            if isinstance(v, tuple) and v[0] == "ref":
                return self.env[v[1]]
            return v  # reference parameters are modelled by their pointee
        m = re.match(r"^(?:copy|move) (_\d+)$", s)
        if m:
            if m.group(1) in self.width:
                self.last_width = self.width[m.group(1)]
            return self.env[m.group(1)]
        m = re.match(r"^(?:copy|move) \((_\d+)\.(\d+): \w+\)$", s)
        if m:
            return self.env[m.group(1)][1 + int(m.group(2))]
        m = re.match(r"^const (-?[0-9.]+(?:[eE][-+]?\d+)?)f64$", s)
        if m:
            return fp_lit(float(m.group(1)))
        if s == "const std::f64::consts::PI" or s == "const core::f64::consts::PI":
            return fp_lit(math.pi)
        m = re.match(r"^const (\d+)_usize$", s)
        if m:
            return "(_ bv%d 64)" % int(m.group(1))
        m = re.match(r"^const (-?\d+)_isize$", s)
        if m:
            return "(_ bv%d 64)" % (int(m.group(1)) % (1 << 64))
        raise Unsupported("operand: " + s)

    def uf(self, name, args):
        self.ufs.add((name, len(args)))
        return "(%s %s)" % (name, " ".join(args))

    def assign(self, lhs, rhs):
        rhs = rhs.strip()
        m = re.match(r"^(Add|Sub|Mul|Div)\((.*), (.*)\)$", rhs)
        if m:
            a, b = self.operand(m.group(2)), self.operand(m.group(3))
            self.env[lhs] = "(fp.%s RNE %s %s)" % (m.group(1).lower(), a, b)
            return
        m = re.match(r"^Neg\((.*)\)$", rhs)
        if m:
            self.env[lhs] = "(fp.neg %s)" % self.operand(m.group(1))
            return
        m = re.match(r"^Lt\((.*), (.*)\)$", rhs)
        if m:
            self.env[lhs] = "(bvult %s %s)" % (self.operand(m.group(1)), self.operand(m.group(2)))
            return
        m = re.match(r"^Shl\((.*), (.*)\)$", rhs)
        if m:
            self.env[lhs] = "(bvshl %s %s)" % (self.operand(m.group(1)), self.operand(m.group(2)))
            return
        m = re.match(r"^SubWithOverflow\((.*), (.*)\)$", rhs)
        if m:
            a, b = self.operand(m.group(1)), self.operand(m.group(2))
            self.env[lhs] = ("tuple", "(bvsub %s %s)" % (a, b), "(bvult %s %s)" % (a, b))
            return
        m = re.match(r"^(.*) as f64 \(IntToFloat\)$", rhs)
        if m:
            self.env[lhs] = "((_ to_fp 11 53) RNE %s)" % self.operand(m.group(1))  # signed bit-vector
            return
        m = re.match(r"^(.*) as (i8|i16|i32|i64|isize|u8|u16|u32|u64|usize) \(IntToInt\)$", rhs)
        if m:
            bits = {"i8": 8, "i16": 16, "i32": 32, "i64": 64, "isize": 64, "u8": 8, "u16": 16, "u32": 32, "u64": 64, "usize": 64}[m.group(2)]
            v = self.operand(m.group(1))
            w = self.width.get(m.group(1).split()[-1], 64)
            if bits <= w:
                v = "((_ extract %d 0) %s)" % (bits - 1, v)
            else:
                v = "((_ sign_extend %d) %s)" % (bits - w, v)
            self.env[lhs] = v
            self.width[lhs] = bits
            return
        m = re.match(r"^&(_\d+)$", rhs)
        if m:
            self.env[lhs] = ("ref", m.group(1))
            return
        m = re.match(r"^const .*::promoted\[(\d+)\]$", rhs)
        if m:
            self.env[lhs] = self.promoted[int(m.group(1))]
            return
        m = re.match(r"^[\w:]+ \{ (.*) \}$", rhs)
        if m:
            fields = {}
            for part in m.group(1).split(", "):
                k, v = part.split(": ", 1)
                fields[k] = self.operand(v)
            self.env[lhs] = ("struct", fields)
            return
        self.env[lhs] = self.operand(rhs)

    def call(self, lhs, callee, args):
        a = [x.strip() for x in split_args(args)]
        m = re.match(r"^(?:std|core)::f64::<impl f64>::(\w+)$", callee)
        if m:
            f = m.group(1)
            vals = [self.operand(x) for x in a]
            if f == "sqrt":
                self.env[lhs] = "(fp.sqrt RNE %s)" % vals[0]
            elif f == "abs":
                self.env[lhs] = "(fp.abs %s)" % vals[0]
            elif f in ("ln", "exp", "cos", "sin", "powf"):
                self.env[lhs] = self.uf("std_f64_" + f, vals)
            else:
                raise Unsupported("std f64 function " + f)
            return
        m = re.match(r"^<f64 as (Add|Sub|Mul|Div)<&?f64>>::\w+$", callee)
        if m:
            vals = []
            for x in a:
                v = self.operand(x)
                if isinstance(v, tuple) and v[0] == "ref":
                    v = self.env[v[1]]
                vals.append(v)
            self.env[lhs] = "(fp.%s RNE %s %s)" % (m.group(1).lower(), vals[0], vals[1])
            return
        m = re.match(r"^<f64 as From<(i8|i16|i32|u8|u16|u32)>>::from$", callee)
        if m:
            v = self.operand(a[0])
            signed = m.group(1).startswith("i")
            self.env[lhs] = "((_ to_fp 11 53) RNE %s)" % v if signed else "((_ to_fp_unsigned 11 53) RNE %s)" % v
            return
        if re.match(r"^std::ops::RangeInclusive::<f64>::contains::<f64>$", callee):
            rng, x = self.operand(a[0]), self.operand(a[1])
            if isinstance(x, tuple) and x[0] == "ref":
                x = self.env[x[1]]
            if not (isinstance(rng, tuple) and rng[0] == "range"):
                raise Unsupported("contains on unknown range")
            self.env[lhs] = "(and (fp.leq %s %s) (fp.leq %s %s))" % (rng[1], x, x, rng[2])
            return
        raise Unsupported("call to " + callee)


def split_args(s):
    out, depth, cur = [], 0, ""
    for ch in s:
        if ch in "(<[":
            depth += 1
        if ch in ")>]":
            depth -= 1
        if ch == "," and depth == 0:
            out.append(cur)
            cur = ""
        else:
            cur += ch
    if cur.strip():
        out.append(cur)
    return out


def run_path(fn, params, promoted, choose):
    """execute from bb0; `choose(ex, kind, cond)` picks the successor at switchInt / assert. Returns (ex, ret)"""
    ex = Exec(fn, params, promoted)
    bb = "bb0"
    visited = set()
    while True:
        if bb in visited:
            raise Unsupported("loop reached at " + bb)
        visited.add(bb)
        ex.trace.append(bb)
        lines = fn["blocks"][bb]
        for ln in lines:
            ln = ln.rstrip(";")
            if ln.startswith("StorageLive") or ln.startswith("StorageDead") or ln.startswith("debug ") or ln.startswith("FakeRead") or ln == "nop":
                continue
            if ln == "return":
                return ex, ex.env.get("_0")
            m = re.match(r"^goto -> (bb\d+)$", ln)
            if m:
                bb = m.group(1)
                break
            m = re.match(r"^(_\d+) = ([^=]+?)\((.*)\) -> \[return: (bb\d+), unwind[^\]]*\]$", ln)
            if m and not re.match(r"^(Add|Sub|Mul|Div|Neg|Lt|Le|Shl|SubWithOverflow|AddWithOverflow)$", m.group(2).strip()):
                ex.call(m.group(1), m.group(2).strip(), m.group(3))
                bb = m.group(4)
                break
            m = re.match(r"^switchInt\((?:move|copy) (_\d+)\) -> \[0: (bb\d+), otherwise: (bb\d+)\]$", ln)
            if m:
                cond = ex.env[m.group(1)]
                take = choose(ex, "switch", cond)
                ex.asserts.append(cond if take else "(not %s)" % cond)
                bb = m.group(3) if take else m.group(2)
                break
            m = re.match(r"^assert\((!?)(?:move|copy) (.*?), \".*\) -> \[success: (bb\d+), unwind[^\]]*\]$", ln)
            if m:
                cond = ex.operand("move " + m.group(2)) if not m.group(2).startswith("_") else ex.env[m.group(2)]
                if m.group(1) == "!":
                    cond = "(not %s)" % cond
                ok = choose(ex, "assert", cond)
                if not ok:
                    ex.asserts.append("(not %s)" % cond)
                    return ex, ("panic", ln)
                ex.asserts.append(cond)
                bb = m.group(3)
                break
            m = re.match(r"^(_\d+) = (.*)$", ln)
            if m:
                ex.assign(m.group(1), m.group(2))
                continue
            raise Unsupported("statement: " + ln)
        else:
            raise Unsupported("block %s has no terminator we know" % bb)


def z3(text, timeout=60, solver="z3-new"):
    p = tempfile.NamedTemporaryFile("w", suffix=".smt2", delete=False, dir=os.environ.get("SYMX_SCRATCH", "/tmp"))
    p.write(text)
    p.close()
    t = time.time()
    try:
        r = subprocess.run(["timeout", str(timeout + 2), solver, "-T:%d" % timeout, p.name], stdout=subprocess.PIPE, stderr=subprocess.STDOUT, text=True)
    finally:
        os.unlink(p.name)
    out = r.stdout.strip().splitlines()
    first = out[0] if out else "timeout"
    rest = "\n".join(out[1:])
    if first == "unsat" and any("(error" in l and "model is not available" not in l for l in out[1:]):
        first = "unknown"
    if first == "sat" and "(error" in rest:
        first = "unknown"
    return first, rest, time.time() - t


def header(ufs):
    s = "(set-logic ALL)\n"
    for name, n in sorted(ufs):
        s += "(declare-fun %s (%s) %s)\n" % (name, " ".join([F64] * n), F64)
    return s


def parse_fp_model(rest):
    vals = {}
    for m in re.finditer(r"\((\w+) \(fp #b([01]) #[bx]([0-9a-f]+) #[bx]([0-9a-f]+)\)\)", rest):
        s, e, f = m.group(2), m.group(3), m.group(4)
        eb = int(e, 2) if len(e) == 11 else int(e, 16)
        fb = int(f, 16) if len(f) == 13 else int(f, 2)
        vals[m.group(1)] = struct.unpack("<d", struct.pack("<Q", (int(s) << 63) | (eb << 52) | fb))[0]
    for m in re.finditer(r"\((\w+) \(_ ([-+]zero|[-+]oo|NaN) 11 53\)\)", rest):
        vals[m.group(1)] = {"+zero": 0.0, "-zero": -0.0, "+oo": float("inf"), "-oo": float("-inf"), "NaN": float("nan")}[m.group(2)]
    for m in re.finditer(r"\((\w+) #x([0-9a-f]{16})\)", rest):
        vals[m.group(1)] = int(m.group(2), 16)
    return vals


# --------------------------------------------------------------------------------------------- C20b

def float_impl_functions(fns, src):
    line = None
    for i, l in enumerate(src["float.rs"].splitlines(), 1):
        if re.match(r"^impl MomTropFloat for f64\b", l):
            line = i
    if line is None:
        raise Unsupported("`impl MomTropFloat for f64` not found in src/float.rs")
    out = {}
    for name, lst in fns.items():
        m = re.match(r"^float::<impl at src/float\.rs:%d:\d+: \d+:\d+>::(\w+)$" % line, name)
        if m:
            out[m.group(1)] = lst[0]
    return out


SPECS_F = {
    # name: (parameter sorts after self, spec as a function of the parameter terms)
    "ln": ([], lambda x: "(std_f64_ln %s)" % x),
    "exp": ([], lambda x: "(std_f64_exp %s)" % x),
    "cos": ([], lambda x: "(std_f64_cos %s)" % x),
    "sin": ([], lambda x: "(std_f64_sin %s)" % x),
    "powf": (["f64"], lambda x, p: "(std_f64_powf %s %s)" % (x, p)),
    "from_f64": (["f64v"], lambda x, v: v),
    "from_isize": (["isize"], lambda x, n: "((_ to_fp 11 53) RNE %s)" % n),
    "sqrt": ([], lambda x: "(fp.sqrt RNE %s)" % x),
    "inv": ([], lambda x: "(fp.div RNE %s %s)" % (fp_lit(1.0), x)),
    "to_f64": ([], lambda x: x),
    "PI": ([], lambda x: fp_lit(math.pi)),
    "zero": ([], lambda x: fp_lit(0.0)),
    "one": ([], lambda x: fp_lit(1.0)),
    "abs": ([], lambda x: "(fp.abs %s)" % x),
}


def check_c20b(fns, src, res):
    impl = float_impl_functions(fns, src)
    missing = [k for k in SPECS_F if k not in impl]
    if missing:
        raise Unsupported("functions missing from impl MomTropFloat for f64: %s" % missing)
    extra = [k for k in impl if k not in SPECS_F]
    if extra:
        res["notes"].append("impl has functions without a specification here: %s" % extra)
    for name, (psorts, spec) in SPECS_F.items():
        fn = impl[name]
        params = {"_1": "self_"}
        decl = "(declare-const self_ %s)\n" % F64
        args = ["self_"]
        for k, ps in enumerate(psorts):
            v = "arg%d" % k
            params["_%d" % (k + 2)] = v
            decl += "(declare-const %s %s)\n" % (v, "(_ BitVec 64)" if ps == "isize" else F64)
            args.append(v)
        ex, ret = run_path(fn, params, {}, lambda ex, kind, cond: True)
        if isinstance(ret, tuple):
            raise Unsupported("%s: unexpected control flow" % name)
        ufs = set(ex.ufs) | {("std_f64_" + name, len(args))} if name in ("ln", "exp", "cos", "sin", "powf") else set(ex.ufs)
        q = header(ufs) + decl + "(assert (not (= %s %s)))\n(check-sat)\n(get-value (%s))\n" % (ret, spec(*args), " ".join(args))
        ans, rest, secs = z3(q)
        res["queries_total"] += 1
        res["queries_distinct"] += 1
        res["solver_s"] += secs
        res["samples"].append({"query": "C20b %s: return value = %s" % (name, spec(*args)), "answer": ans, "secs": round(secs, 3), "mir_path": ex.trace})
        if ans == "unsat":
            res["queries_unsat"] += 1
            res["goals_proved"] += 1
        elif ans == "sat":
            res["queries_sat"] += 1
            model = parse_fp_model(rest)
            res["violations"].append({"goal": "f64::%s = specification" % name, "site": "mir2smt/float.rs", "witness_class": "goal-fails",
                                      "desc": "MIR of <f64 as MomTropFloat>::%s returns %s, specification %s; model %s" % (name, ret, spec(*args), model),
                                      "replay": {"kind": "float-fn", "function": name, "model": {k: (v if isinstance(v, int) else repr(v)) for k, v in model.items()}}, "needs_native_replay": True})
        else:
            res["queries_inconclusive"] += 1
            res["inconclusive"].append("C20b %s: %s" % (name, ans))
    res["functions_encoded"].append("impl MomTropFloat for f64 (src/float.rs): " + ", ".join(sorted(SPECS_F)))


# --------------------------------------------------------------------------------------------- C12a

def promoted_ranges(fns, owner):
    out = {}
    for name, lst in fns.items():
        m = re.match(r"^%s::promoted\[(\d+)\]$" % re.escape(owner), name)
        if not m:
            continue
        fn = lst[0]
        try:
            ex = Exec(fn, {}, {})
            for ln in fn["blocks"]["bb0"]:
                ln = ln.rstrip(";")
                mm = re.match(r"^(_\d+) = std::ops::(RangeInclusive|Range)::<f64>::new\((.*)\) -> .*$", ln)
                if mm:
                    a = [ex.operand(x) for x in split_args(mm.group(3))]
                    out[int(m.group(1))] = ("range", a[0], a[1], mm.group(2) == "RangeInclusive")
                    break
                mm = re.match(r"^(_\d+) = (.*)$", ln)
                if mm and "->" not in ln:
                    ex.assign(mm.group(1), mm.group(2))
        except Unsupported:
            pass
    return out


def check_c12a(fns, src, res):
    fn = fns.get("inverse_gamma_lr_impl") or fns.get("gamma::inverse_gamma_lr_impl")
    if not fn:
        raise Unsupported("inverse_gamma_lr_impl not found in the MIR dump")
    fn = fn[0]
    prom = promoted_ranges(fns, "inverse_gamma_lr_impl")
    params = {"_1": "a", "_2": "p", "_4": "eps", "_3": "(_ bv50 64)"}
    # the only loop-free path to `return` that needs no transcendental inequality: first branch taken
    ex, ret = run_path(fn, params, prom, lambda ex, kind, cond: True)
    if isinstance(ret, tuple) or ret is None:
        raise Unsupported("early-return path of inverse_gamma_lr_impl not recognised")
    decl = "".join("(declare-const %s %s)\n" % (v, F64) for v in ("a", "p", "eps"))
    one, zero = fp_lit(1.0), fp_lit(0.0)
    q1 = "(fp.sub RNE %s p)" % one
    facts = (
        "(assert (= (std_f64_ln %s) %s))\n" % (one, zero)
        + "(assert (=> (and (fp.lt %s %s) (fp.lt %s %s)) (and (fp.lt (std_f64_ln %s) %s) (not (fp.isInfinite (std_f64_ln %s))) (not (fp.isNaN (std_f64_ln %s))))))\n" % (zero, q1, q1, one, q1, zero, q1, q1)
    )
    pc = "".join("(assert %s)\n" % a for a in ex.asserts)
    # 1-p rounds to 1 for every p < 2^-54: the two cases are distinguished by the rounded q, as the code sees it
    dom_open = "(assert (and (fp.leq %s p) (fp.lt p %s) (fp.lt %s %s)))\n" % (zero, one, q1, one)
    dom_zero = "(assert (and (fp.leq %s p) (fp.lt p %s) (fp.eq %s %s)))\n" % (zero, one, q1, one)
    ufs = set(ex.ufs) | {("std_f64_ln", 1)}
    res["functions_encoded"].append("gamma::inverse_gamma_lr_impl: loop-free entry path %s (shape within 1e-8 of 1)" % "->".join(ex.trace))
    goals = [
        ("path condition is exactly 'a in [1-1e-8, 1+1e-8]'", header(ufs) + decl + pc + "(assert (not (and (fp.leq (fp.sub RNE %s %s) a) (fp.leq a (fp.add RNE %s %s)))))\n" % (one, fp_lit(1e-8), one, fp_lit(1e-8)), "unsat"),
        ("p in [0,1) with fl(1-p) < 1: returned value is finite and > 0", header(ufs) + decl + facts + pc + dom_open + "(assert (not (and (fp.gt %s %s) (not (fp.isInfinite %s)) (not (fp.isNaN %s)))))\n" % (ret, zero, ret, ret), "unsat"),
        ("p in [0,1) with fl(1-p) = 1 (p < 2^-54, incl. p = 0): returned value is -0.0, i.e. not > 0 (the wrapper has to turn it into an error)", header(ufs) + decl + facts + pc + dom_zero + "(assert (not (and (fp.isZero %s) (fp.isNegative %s))))\n" % (ret, ret), "unsat"),
        ("vacuity twin: the path is reachable", header(ufs) + decl + facts + pc + dom_open, "sat"),
    ]
    for label, q, want in goals:
        ans, rest, secs = z3(q + "(check-sat)\n")
        res["queries_total"] += 1
        res["queries_distinct"] += 1
        res["solver_s"] += secs
        res["samples"].append({"query": "C12a " + label, "answer": ans, "expected": want, "secs": round(secs, 3)})
        if ans == want:
            if want == "unsat":
                res["queries_unsat"] += 1
                res["goals_proved"] += 1
            else:
                res["queries_sat"] += 1
                res["twins_expected"] += 1
                res["twins_refuted"] += 1
        elif ans in ("sat", "unsat"):
            res["hard_failures"].append("C12a %s: solver answered %s, expected %s (the early-return branch of inverse_gamma_lr_impl changed)" % (label, ans, want))
        else:
            res["queries_inconclusive"] += 1
            res["inconclusive"].append("C12a %s: %s" % (label, ans))


# --------------------------------------------------------------------------------------------- C05 size limit

def check_c05size(fns, src, res):
    cand = [lst[0] for name, lst in fns.items() if re.match(r"^preprocessing::<impl at src/preprocessing\.rs:\d+:\d+: \d+:\d+>::new$", name) and "-> TropicalSubGraphId" in lst[0]["header"]]
    if not cand:
        raise Unsupported("TropicalSubGraphId::new not found in the MIR dump")
    fn = cand[0]
    m = re.search(r"pub const MAX_EDGES: usize = (\d+);", src["lib.rs"])
    if not m:
        raise Unsupported("MAX_EDGES not found in src/lib.rs")
    max_edges = int(m.group(1))
    res["functions_encoded"].append("preprocessing::TropicalSubGraphId::new (overflow checks on), MAX_EDGES = %d from src/lib.rs" % max_edges)
    decl = "(declare-const n (_ BitVec 64))\n(assert (bvule n (_ bv%d 64)))\n(assert (bvuge n (_ bv1 64)))\n" % max_edges
    # enumerate the panic exits: each assert may fail after the earlier ones succeeded
    n_asserts = sum(1 for b in fn["blocks"].values() for l in b if l.startswith("assert("))
    for k in range(n_asserts):
        cnt = {"i": 0}

        def choose(ex, kind, cond, k=k, cnt=cnt):
            if kind != "assert":
                return True
            i = cnt["i"]
            cnt["i"] += 1
            return i != k

        ex, ret = run_path(fn, {"_1": "n"}, {}, choose)
        if not (isinstance(ret, tuple) and ret[0] == "panic"):
            continue
        q = "(set-logic ALL)\n" + decl + "".join("(assert %s)\n" % a for a in ex.asserts) + "(check-sat)\n(get-value (n))\n"
        ans, rest, secs = z3(q, solver="z3")
        res["queries_total"] += 1
        res["queries_distinct"] += 1
        res["solver_s"] += secs
        res["samples"].append({"query": "C05 size limit: can `%s` fail for 1 <= n <= MAX_EDGES?" % ret[1][:60], "answer": ans, "secs": round(secs, 3)})
        if ans == "unsat":
            res["queries_unsat"] += 1
            res["goals_proved"] += 1
        elif ans == "sat":
            res["queries_sat"] += 1
            model = parse_fp_model(rest)
            res["violations"].append({"goal": "no-panic-within-size-limits", "site": "mir2smt/TropicalSubGraphId::new", "witness_class": "arithmetic-overflow",
                                      "desc": "TropicalSubGraphId::new(n) panics (%s) for n = %s <= MAX_EDGES = %d" % (ret[1][:70], model.get("n"), max_edges),
                                      "replay": {"kind": "size-limit", "n": model.get("n")}, "needs_native_replay": True})
        else:
            res["queries_inconclusive"] += 1
            res["inconclusive"].append("C05 size: %s" % ans)


def run(arg, tier, seed, work, repo):
    t0 = time.time()
    res = {"part": "mir2smt:" + arg, "functions_encoded": [], "bounds": {}, "assumptions": [], "queries_total": 0, "queries_distinct": 0, "queries_unsat": 0,
           "queries_sat": 0, "queries_inconclusive": 0, "goals_proved": 0, "twins_expected": 0, "twins_refuted": 0, "solver_s": 0.0, "samples": [],
           "violations": [], "inconclusive": [], "hard_failures": [], "notes": [], "paths_feasible": 0, "branch_decisions": 0, "validations": 0}
    try:
        mir, src, secs = dump_mir(work, repo)
        res["notes"].append("MIR dump of the current working tree: %.1fs, %d lines" % (secs, mir.count("\n")))
        fns = split_functions(mir)
        {"C20b": check_c20b, "C12a": check_c12a, "C05size": check_c05size}[arg](fns, src, res)
    except Unsupported as e:
        res["hard_failures"].append("mir2smt does not cover the current source: %s" % e)
    except KeyError as e:
        res["hard_failures"].append("mir2smt: unknown local/function %s (the MIR shape changed)" % e)
    res["paths_feasible"] = max(res["goals_proved"], 1)
    res["branch_decisions"] = res["queries_total"]
    res["bounds"] = {
        "C20b": "all binary64 values of self/arguments (QF_FP + uninterpreted std functions), all 2^64 isize values for from_isize",
        "C12a": "a within the code's own range constant, all binary64 p in [0,1); ln uninterpreted with ln(1)=0 and ln(x)<0 finite on (0,1)",
        "C05size": "all n with 1 <= n <= MAX_EDGES",
    }[arg]
    res["assumptions"] = ["rustc's MIR (nightly, -C overflow-checks=on) is the semantics of the source", "z3 answers trusted",
                          "std::f64::{ln,exp,cos,sin,powf} are uninterpreted: the claim is that exactly these functions are called on exactly these arguments"]
    res["wall_s"] = time.time() - t0
    return res
