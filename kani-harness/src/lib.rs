//! Kani harnesses for alphal00p/momtrop (see /verif/DESIGN.md §3).
//!
//! The table-assembly harnesses replace the two HashSet graph routines by
//! nondeterministic stubs that read symbolic arrays indexed by the subset mask, so one
//! run covers every assignment of loop numbers and spanning flags to the 2^E subsets.
extern crate alloc;

#[cfg(kani)]
mod k {
    use momtrop::verif::*;
    use momtrop::{Edge, Graph};

    pub fn stub_format(_a: std::fmt::Arguments<'_>) -> String {
        String::new()
    }
    const E: usize = 2;
    const N: usize = 1 << E;
    static mut LOOPS: [u8; N] = [0; N];
    static mut SPAN: [bool; N] = [false; N];
    fn mask(edges: &[usize]) -> usize {
        let mut m = 0;
        let mut i = 0;
        while i < edges.len() {
            m |= 1 << edges[i];
            i += 1;
        }
        m
    }
    pub fn stub_loop_number(_s: &TropicalGraph, edges: &[usize]) -> usize {
        unsafe { LOOPS[mask(edges)] as usize }
    }
    pub fn stub_spanning(_s: &TropicalGraph, edges: &[usize]) -> bool {
        unsafe { SPAN[mask(edges)] }
    }
    /// injective tag standing for Gamma: fixes *which* arguments Gamma is applied to
    pub fn stub_gamma(x: f64) -> f64 {
        x + 16.0
    }

    struct Setup {
        l: [u8; N],
        sp: [bool; N],
        w: [f64; E],
        massive: [bool; E],
        dim: usize,
    }
    fn setup() -> (Setup, Result<TropicalSubgraphTable, String>, TropicalGraph) {
        let l: [u8; N] = kani::any();
        let sp: [bool; N] = kani::any();
        for i in 0..N {
            kani::assume(l[i] <= 2);
            unsafe {
                LOOPS[i] = l[i];
                SPAN[i] = sp[i];
            }
        }
        kani::assume(l[0] == 0);
        let w: [f64; E] = weights();
        let massive: [bool; E] = kani::any();
        let dim: usize = dimension();
        let v: [u8; 4] = kani::any();
        let g = Graph {
            edges: vec![
                Edge { vertices: (v[0], v[1]), is_massive: massive[0], weight: w[0] },
                Edge { vertices: (v[2], v[3]), is_massive: massive[1], weight: w[1] },
            ],
            externals: vec![],
        };
        let tg = TropicalGraph::from_graph(g, dim);
        let r = TropicalSubgraphTable::generate_from_tropical(&tg, dim);
        (Setup { l, sp, w, massive, dim }, r, tg)
    }
    /// the formula harnesses (C03 table, C04) use concrete weights (feature concrete_w: picked by the
    /// driver from VERIF_SEED); the acceptance harness (C05) keeps them symbolic in [1/8, 8]
    fn weights() -> [f64; E] {
        #[cfg(feature = "concrete_w")]
        {
            let k: usize = option_env!("KANI_W").and_then(|s| s.parse().ok()).unwrap_or(0);
            const TABLE: [[f64; E]; 6] = [[0.75, 1.25], [1.0, 1.0], [0.625, 2.0], [1.5, 0.875], [0.3, 0.7], [2.0, 0.125]];
            return TABLE[k % 6];
        }
        #[allow(unreachable_code)]
        {
            let w: [f64; E] = kani::any();
            for i in 0..E {
                kani::assume(w[i] >= 0.125 && w[i] <= 8.0);
            }
            w
        }
    }
    /// quick tier: one dimension chosen by the driver (cfg dim_N); thorough: symbolic 1..=6
    fn dimension() -> usize {
        #[cfg(feature = "dim_1")]
        return 1;
        #[cfg(feature = "dim_2")]
        return 2;
        #[cfg(feature = "dim_3")]
        return 3;
        #[cfg(feature = "dim_4")]
        return 4;
        #[cfg(feature = "dim_5")]
        return 5;
        #[cfg(feature = "dim_6")]
        return 6;
        #[allow(unreachable_code)]
        {
            let d: usize = kani::any();
            kani::assume(d >= 1 && d <= 6);
            d
        }
    }
    fn wsum(s: &Setup, m: usize) -> f64 {
        // same summation order as Iterator::sum over the edges in index order
        let mut ws = -0.0;
        for e in 0..E {
            if m & (1 << e) != 0 {
                ws += s.w[e];
            }
        }
        ws
    }
    fn dod_spec(s: &Setup) -> f64 {
        wsum(s, N - 1) - (s.l[N - 1] as f64 * s.dim as f64) / 2.0
    }
    fn gd_spec(s: &Setup, m: usize) -> f64 {
        if m == 0 {
            return 1.0;
        }
        let base = wsum(s, m) - s.l[m] as f64 * s.dim as f64 / 2.0;
        if s.sp[m] {
            base - dod_spec(s)
        } else {
            base
        }
    }

    // ---------------------------------------------------------------- C05
    #[kani::proof]
    #[kani::unwind(6)]
    #[kani::stub(alloc::fmt::format, stub_format)]
    #[kani::stub(momtrop::verif::TropicalGraph::get_loop_number, stub_loop_number)]
    #[kani::stub(momtrop::verif::TropicalGraph::is_mass_momentum_spanning, stub_spanning)]
    #[kani::stub(statrs::function::gamma::gamma, stub_gamma)]
    fn c05_accepts_iff_no_divergent_proper_subgraph() {
        let (s, r, _tg) = setup();
        let mut some_neg = false;
        let mut all_pos = true;
        for m in 1..N - 1 {
            let g = gd_spec(&s, m);
            if g <= -1e-9 {
                some_neg = true;
            }
            if !(g >= 1e-9) {
                all_pos = false;
            }
        }
        match r {
            Err(_) => assert!(!all_pos, "rejected although every proper subgraph has positive generalised dod"),
            Ok(t) => {
                assert!(!some_neg, "accepted although a proper subgraph has negative generalised dod");
                // J finite and positive whenever the full graph's own entries are positive too
                for m in 0..N - 1 {
                    let j = t.table[m].j_function;
                    assert!(j.is_finite() && j > 0.0, "J of a proper subset is finite and positive");
                }
            }
        }
    }

    // ---------------------------------------------------------------- C03 (assembly)
    #[kani::proof]
    #[kani::unwind(6)]
    #[kani::stub(alloc::fmt::format, stub_format)]
    #[kani::stub(momtrop::verif::TropicalGraph::get_loop_number, stub_loop_number)]
    #[kani::stub(momtrop::verif::TropicalGraph::is_mass_momentum_spanning, stub_spanning)]
    #[kani::stub(statrs::function::gamma::gamma, stub_gamma)]
    fn c03_table_entries_follow_the_definition() {
        let (s, r, tg) = setup();
        // the specification replicates the documented formula in the same order of operations, so
        // equality is exact (bitwise) and CBMC can discharge it structurally
        assert!(tg.dod == dod_spec(&s), "overall dod");
        assert!(tg.num_loops == s.l[N - 1] as usize, "loop count");
        let nm = (s.massive[0] as usize) + (s.massive[1] as usize);
        assert!(tg.num_massive_edges == nm, "massive edge count");
        assert!(tg.topology.len() == E, "edge count");
        assert!(tg.topology[0].weight == s.w[0] && tg.topology[1].weight == s.w[1], "weights echo the input");
        if let Ok(t) = r {
            assert!(t.table.len() == N, "2^E entries");
            assert!(t.dimension == s.dim);
            for m in 0..N {
                assert!(t.table[m].loop_number == s.l[m], "loop number stored");
                assert!(t.table[m].mass_momentum_spanning == s.sp[m], "spanning flag stored");
                assert!(t.table[m].generalized_dod == gd_spec(&s, m), "generalised dod formula");
            }
            assert!(t.table[0].generalized_dod == 1.0, "empty set: 1");
        }
    }

    // ---------------------------------------------------------------- C04 (recursion + normalisation formula)
    #[kani::proof]
    #[kani::unwind(6)]
    #[kani::stub(alloc::fmt::format, stub_format)]
    #[kani::stub(momtrop::verif::TropicalGraph::get_loop_number, stub_loop_number)]
    #[kani::stub(momtrop::verif::TropicalGraph::is_mass_momentum_spanning, stub_spanning)]
    #[kani::stub(statrs::function::gamma::gamma, stub_gamma)]
    fn c04_j_recursion_and_normalisation() {
        let (s, r, tg) = setup();
        if let Ok(t) = r {
            assert!(t.table[0].j_function == 1.0, "J(empty) = 1");
            // J({e}) = J(empty)/omega(empty) = 1
            assert!(t.table[1].j_function == 1.0 && t.table[2].j_function == 1.0, "J of single edges");
            let w1 = t.table[1].generalized_dod;
            let w2 = t.table[2].generalized_dod;
            // J({0,1}) = J({1})/omega({1}) + J({0})/omega({0})   (edge 0 removed first in index order)
            let jf = t.table[3].j_function;
            let spec = 1.0 / w2 + 1.0 / w1;
            assert!(jf == spec || (jf.is_nan() && spec.is_nan()), "J(full) recursion");
            let _ = (&s, &tg);
        }
    }

    // ---------------------------------------------------------------- C03: subgraph id bit operations
    #[kani::proof]
    #[kani::unwind(8)]
    #[kani::stub(momtrop::verif::TropicalGraph::get_loop_number, stub_loop_number16)]
    fn c03_subgraph_id_bit_operations() {
        let n: usize = kani::any();
        kani::assume(n >= 1 && n <= 6);
        let mut edges = Vec::with_capacity(6);
        let mut i = 0;
        while i < n {
            edges.push(Edge { vertices: (0, 1), is_massive: false, weight: 1.0 });
            i += 1;
        }
        let tg = TropicalGraph::from_graph(Graph { edges, externals: vec![] }, 3);
        let full = tg.get_full_subgraph_id();
        assert!(full.get_id() == (1usize << n) - 1, "full subgraph id has the n low bits set");
        let e: usize = kani::any();
        kani::assume(e < n);
        let popped = full.pop_edge(e);
        assert!(popped.get_id() == full.get_id() ^ (1usize << e), "pop_edge clears exactly that bit");
        assert!(popped.is_empty() == (popped.get_id() == 0));
        assert!(popped.has_one_edge() == (popped.get_id().count_ones() == 1));
        let mut count = 0;
        let mut m = 0usize;
        for k in popped.contains_edges() {
            assert!(k < n && k != e);
            m |= 1 << k;
            count += 1;
        }
        assert!(count == n - 1 && m == popped.get_id(), "contains_edges enumerates exactly the set bits");
    }
    pub fn stub_loop_number16(_s: &TropicalGraph, _edges: &[usize]) -> usize {
        0
    }

    // ---------------------------------------------------------------- C12: wrapper turns NaN into an error
    pub fn any_kernel(_a: f64, _p: f64, _n: usize, _eps: f64) -> f64 {
        kani::any()
    }
    #[kani::proof]
    #[kani::stub(momtrop::gamma::inverse_gamma_lr_impl, any_kernel)]
    fn c12_wrapper_never_returns_nan_as_ok() {
        let a: f64 = kani::any();
        let p: f64 = kani::any();
        let eps: f64 = kani::any();
        match momtrop::gamma::inverse_gamma_lr(&a, &p, 50, &eps) {
            Ok(v) => {
                assert!(!v.is_nan(), "Ok(NaN) returned");
                assert!(v > 0.0 && v.is_finite(), "Ok(lambda) with lambda not finite and > 0");
            }
            Err(_) => {}
        }
    }
}
