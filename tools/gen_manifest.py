#!/usr/bin/env python3
"""Regenerate /verif/MANIFEST.json from the table below (claimed = has parts in ./check)."""
import json, os, re, sys
VERIF = os.path.dirname(os.path.dirname(os.path.abspath(__file__)))
src = open(os.path.join(VERIF, "check")).read()
claimed = re.findall(r'^\s+"(C\d+)":\s*\[', src, re.M)

SYMX_NOTE = ("Trusted: z3 4.8.12 (nlsat / QF_FP), the Sym scalar (validated on every run against the native f64 execution of the same harness), "
             "the harness's specification code (oracle). R-mode claims are about exact real arithmetic: rounding of T=f64 is outside. "
             "Bounds are the catalogue entries and sizes listed in the evidence file; nothing outside them is claimed.")

P = {
 "C15": dict(
    text="Bounded symbolic check: the real decompose_for_tropical, instantiated with a term-building scalar, is executed on a fully symbolic symmetric matrix (n=1..6 all goals, n=7 factor/inverse identities in the quick tier; n<=8 thorough; all entries solver variables); every entry of Q^T Q = M, Q^-T Q^T = I, inverse*M = I, det = det M, triangularity and positive diagonal is discharged by z3 as an unsat query under 'every Cholesky pivot > 0' (tied to Sylvester's criterion by further queries), so it holds for every SPD matrix of those sizes in exact arithmetic. Unit tests sample two matrices.",
    design_ref="§6 C15", technique="symbolic execution of the generic code (T=Sym) + z3 QF_NRA, per-entry unsat queries", note=SYMX_NOTE),
}
def sx(text, ref, tech="symbolic execution of the generic code (T=Sym) over all sector paths + z3 QF_NRA/QF_UFNRA queries, native replay"):
    return dict(text=text, design_ref=ref, technique=tech, note=SYMX_NOTE)
P.update({
 "C03": dict(engine="kani+symx", design_ref="§6 C03", technique="Kani/CBMC proof harness over the compiled table assembly with nondeterministic graph-routine stubs; symbolic sector walk (z3) on catalogue graphs", note="Trusted: CBMC 6.11/CaDiCaL, the listed stubs (the stubbed HashSet routines are NOT verified by the solver: their results are only compared concretely with a union-find oracle on catalogue and awkward multigraphs), z3, the oracle.",
   text="Partial, as DESIGN §6 says. (a) Kani: generate_from_tropical and from_graph are compiled and model-checked for E=2 with the two HashSet graph routines replaced by stubs that read symbolic arrays, i.e. for EVERY assignment of loop numbers and spanning flags to the subsets, symbolic weights, masses, labels: each entry stores exactly the stubbed loop number / flag and the generalised-dod formula; dod, loop count, massive count, weights echo the input; TropicalSubGraphId bit operations for 1..6 edges. (b) symx/z3 (part C07): on every sector of every catalogue graph the exponents 1/omega and the steps at which u_trop / v_trop change pin loop number, spanning flag and generalised dod of the subsets along every chain to the oracle. (c) concrete: every table entry of catalogue + awkward multigraphs (self-loops, labels 64 apart, disconnected, untouched externals) compared with the oracle. Not claimed by the solver: correctness of get_connected_components/get_loop_number/is_mass_momentum_spanning on arbitrary graphs."),
 "C04": dict(engine="kani+symx", design_ref="§6 C04", technique="Kani/CBMC proof harness (J recursion, normalisation formula with an injective Gamma tag); z3 queries on sample_edge normalisation; exact-rational comparison", note="Trusted: CBMC, the stubs (Gamma replaced by an injective tag: numerical values of Gamma and pi^(DL/2) are not claimed), z3, the oracle.",
   text="Partial. (a) Kani, E=2, all abstract graphs: J(empty)=1, J({e})=1, J(full) = 1/omega({1}) + 1/omega({0}) and cached_factor = J(full)*G(dod)/(G(w0)G(w1))*pi^(D*loops/2) with G an injective stand-in for Gamma. (b) symx/z3 (part C06, real arithmetic): on every subgraph of every catalogue graph the running sum of J(g\\e)/(J(g) omega(g\\e)) computed exactly from the table entries is within 1e-12 of the oracle's exact distribution and no u <= 1-1e-12 falls through, i.e. the probabilities sum to one. (c) concrete: J of every subset vs the recursion on the table's own entries and vs exact rationals; normalisation vs the formula."),
 "C05": dict(engine="kani+mir2smt+symx", design_ref="§6 C05", technique="Kani/CBMC proof harness (accept iff no divergent proper subgraph, J finite positive, no panic); MIR->SMT bit-vector query for the size limit", note="Trusted: CBMC, the stubs, rustc MIR, z3. Determinism of the HashSet routines is argued, not solver-checked.",
   text="Kani, E=2, every assignment of loop numbers/flags, weights in [1/8,8], one D per run (all D=1..6 in the thorough tier): Err iff some proper non-empty subset has generalised dod <= -1e-9 resp. Ok iff all >= 1e-9, J finite and > 0, no panic / overflow / out-of-bounds (Kani's checks, unwinding assertions on). mir2smt: TropicalSubGraphId::new(n) cannot panic for n < MAX_EDGES (n = MAX_EDGES = 64 does: known finding). Concrete: acceptance, J > 0 and bit-identical rebuild on catalogue + awkward graphs."),
 "C12": dict(engine="kani+mir2smt", design_ref="§6 C12", technique="Kani/CBMC proof of the wrapper with an arbitrary kernel; MIR->SMT (QF_FP) of the loop-free early return of the kernel", note="Trusted: CBMC, rustc MIR, z3. NOT claimed: accuracy |P(a,lambda)-p| <= 2e-8, monotonicity, absence of panics inside the iterative kernel (input-dependent loops over statrs special functions: not encodable within reach).",
   text="A slice only. (a) Kani: for EVERY f64 a, p, eps and every possible kernel result, inverse_gamma_lr returns Ok(v) only with v finite and > 0 (NaN, infinities, -0.0, negatives are errors) — the 'error or finite lambda > 0' clause on the whole domain. (b) mir2smt: the current MIR of inverse_gamma_lr_impl's entry path (shape within 1e-8 of 1): path condition is exactly that range; for p in [0,1) with fl(1-p) < 1 the value -ln(1-p) is finite and > 0 (ln uninterpreted with ln 1 = 0, ln < 0 on (0,1)); for fl(1-p) = 1 it is -0.0 (an error after the fix). (c) that a sample's lambda is this function of (dod, coordinate 2E-2, 5.0) is C14/C19."),
 "C20": dict(engine="symx+mir2smt", design_ref="§6 C20", technique="symbolic execution of Vector<Sym,D> (IEEE mode) + z3 QF_FP; MIR->SMT of impl MomTropFloat for f64", note="Trusted: z3 (5.1 for QF_FP), rustc MIR; std::f64::{ln,exp,cos,sin,powf} uninterpreted.",
   text="(a) Vector::<Sym,D>, D=1..8, all binary64 components: +, -, scaling by value and by reference, += are componentwise; dot is the left-to-right sum from +0.0; squared(v) = dot(v,v); dot symmetric (per-component IEEE commutativity proved bit-precisely); constructors and accessors round-trip — identical terms or QF_FP equality. (b) the MIR of each of the 14 functions of impl MomTropFloat for f64 is translated and proved equal to its specification: inv(x) = 1/x, from_isize exact int->float conversion for all 2^64 inputs, from_f64/to_f64 identity, PI/zero/one constants, abs/sqrt the IEEE operations, ln/exp/cos/sin/powf call exactly the std function on exactly self (and power)."),
 "C16": sx("decompose_for_tropical is executed with IEEE-754 binary64 semantics on symbolic f64 entries (n=1; n=2 diagonal; n=2 full as counterexample search in the thorough tier), every value including NaN, infinities and subnormals, and a symbolic tolerance >= 0: z3 (QF_FP, bit-precise) proves that Ok implies determinant != 0, that any answer other than ZeroDet implies a non-zero Cholesky pivot product, and that with Some(tol) an Ok result has |inverse*M-1|_{2,1} <= tol and no NaN in any returned field. For n=2,3 (real arithmetic, residual entries abstracted) the term the code compares with the tolerance is shown to be the L_2,1 norm of the residual.", "§6 C16", "symbolic execution of decompose_for_tropical (T=Sym, IEEE mode) + z3 QF_FP bit-precise queries; native replay"),
 "C02": sx("With the Feynman parameters abstracted to arbitrary positive reals (so every x-space point and sector is covered) and fixed rational kinematics per catalogue graph, z3 proves U_tr <= u <= N_T U_tr and (c_min/N_T) V_tr <= v <= C_sum V_tr for the code's u and v, the maxima being encoded by quantifier alternation over the finitely many monomials (oracle: exact spanning-tree / 2-forest enumeration); the tropical normalisation U_tr^(D/2) V_tr^dod = 1 comes from the C07 part, and a log-space lemma composes them into the stated interval for jacobian/normalisation.", "§6 C02", "symbolic execution (T=Sym) + z3 QF_NRA with disjunctive monomial bounds, QF_LRA composition lemma"),
 "C11": sx("On every sector path: u_trop = v_trop = 1; jacobian = cached_factor * u^(-D/2) * v^(-dod) and = cached_factor * (U_tr/U)^(D/2) (V_tr/V)^dod at the unrescaled parameters (log-linear z3 queries with the code's own scaling term), cached_factor = I_tr*Gamma(dod)/prod Gamma(w)*pi^(DL/2) with I_tr from the oracle's exact J recursion, and the homogeneity facts U(x) = s^L U(x~), F(x) = s^(L+1) F(x~), u = U(x).", "§6 C11", "symbolic execution of sample() (T=Sym) + z3 QF_LRA (log-linear) and QF_NRA queries"),
 "C07": sx("On every sector path of every catalogue graph (debug log of feature `log` as observation point): z3 proves, in log space where products and constant powers are linear (exact for positive quantities), that x~ of the k-th removed edge is prod_{j<k} xi_j^(1/omega(g_j)) with omega from the oracle, that u_trop and u_trop*v_trop before rescaling are the dominating monomials of U and F and every other monomial is below them, that x = s*x~ with one common s, and that (s^L u_trop)^(D/2) (s v_trop)^dod = 1.", "§6 C07", "symbolic execution of permatuhedral_sampling (T=Sym) + z3 QF_LRA on log-linearised monomial identities"),
 "C06": sx("sample_edge, called directly with a symbolic u on every subgraph with >= 2 edges of every catalogue graph, is executed with IEEE-754 binary64 semantics (constants folded with the host's f64 operations, u a QF_FP variable): z3 decides for ALL doubles in [0,1) at once that the fall-through panic is unreachable and that edge k is returned only for c_(k-1)-1e-12 <= u <= c_k+1e-12 (c from the oracle's exact rational J recursion); in real arithmetic the tie rule c_(k-1) < u <= c_k is checked exactly; through sample() every removal the sampler actually performs lies between the oracle's cumulative sums of the then-current subgraph, and the single-edge shortcut consumes no coordinate.", "§6 C06", "symbolic execution of sample_edge (T=Sym, IEEE mode) + z3 QF_FP bit-precise queries; native replay"),
 "C08": sx("Bounded symbolic check over the catalogue graphs (L<=3 quick incl. a dense and a sparse three-loop graph; L<=5 thorough), 2-4 cycle bases each (fundamental, reversed cycle, unimodular recombinations k0+-k1 that produce signature entries of modulus 2, reverse cycle order): sample() is executed with a term-building scalar on every sector path; with the Feynman parameters abstracted to arbitrary positive reals (abstraction justified by a query on each path) z3 proves L[i][j] = sum_e x_e s_ei s_ej, symmetry, and u = Kirchhoff polynomial from an independent spanning-tree enumeration.", "§6 C08"),
 "C09": sx("As C08, with masses, external momenta and loop-momentum offsets as solver variables: z3 proves v*u = F (2-forest polynomial from an independent enumeration) and u_vectors = sum x s p for every routing against one routing-free specification; inverse and determinant are abstracted by proved relations (INV*U = adj(L), U = Kirchhoff). Two-loop bananas at D=5,6 cover the vector code for D>4. The matrix part (C15: all SPD matrices n<=6, inverse identities at n=7) runs inside this check because v is computed from the matrix inverse.", "§6 C09"),
 "C10": sx("As C09: Gaussian vectors, lambda>0, Feynman parameters as free solver variables; z3 proves L*shift = u, Q^T(k+shift) = sqrt(v/2lambda) q, Q^-1 L Q^-T = I, k+shift = pref*Q^-T q (all graphs), and the composite identity sum x(|q_e|^2+m^2) = v(1+|q|^2/2lambda) for one-loop graphs in the quick tier (all graphs attempted in the thorough tier, timeouts reported). The matrix part (C15) runs inside this check.", "§6 C10"),
 "C13": sx("Every Gaussian component of Metadata.q_vectors is proved equal to sqrt(-2 ln a) cos|sin(2 pi b) of its designated pair for D=1..6, L=1..3 (5 thorough) on every path, with ln/cos/sin uninterpreted (congruence) — any change in pairing, order or formula is a sat query that is replayed natively.", "§6 C13"),
 "C14": sx("On every path of every catalogue graph: no index panic with get_dimension() coordinates, no Ok return with one fewer, three extra coordinates yield identical terms, dependency cones of Feynman parameters / lambda / Gaussian components contain only their designated coordinates (plus a solver self-composition query), and for every coordinate a solver-produced point on some feasible path shows the result changes when only that coordinate changes.", "§6 C14", "symbolic execution + self-composition queries (z3), dependency cones of the term DAG"),
 "C17": sx("Self-composition: one symbolic execution first builds and samples another sampler (same edge count and D, different loop number, same Gamma coordinate), then calls the sampler under test repeatedly (x, a different point, x, x, x under the three other settings combinations, then generate_sample_from_rng with a tagging RNG); every output of a repeated call must be the identical hash-consed term or is handed to z3 as an equality goal; the RNG path must draw exactly get_dimension() words. A hidden cache, counter or settings-dependent arithmetic produces different terms, a sat answer and a native replay.", "§6 C17", "symbolic self-composition over call histories (T=Sym), term identity + z3 equality queries"),
 "C18": sx("Differential symbolic execution: the sampler and its round trip through two self-describing f64-exact value-tree formats (serde_json::Value: structs as maps; a sequence-encoding format: structs as sequences) are both executed on the same symbolic point on every path; outputs, lambda and Gaussian vectors must be identical terms or proved equal; accessors and the re-serialised value tree must coincide. Includes a disconnected two-component graph.", "§6 C18", "differential symbolic execution original vs restored sampler (T=Sym) + z3"),
 "C19": sx("Observation through the user-supplied scalar on every path the solver does not prune: the list of to_f64 calls, the to_f64..from_f64 narrowings (must be exactly the Gamma draw with arguments (dod, x[2E-2], 5.0)), all from_f64 constants (must be table constants) and Narrow nodes in the dependency cone of every output; same for decompose_for_tropical and Vector called directly.", "§6 C19", "symbolic execution with narrowing log (T=Sym); solver decides path feasibility"),
})
# the thorough tier is registered only where it was run to completion on the unchanged tree (exit 0) in this sandbox;
# for the others `./check <ID> --tier thorough` exists (bigger catalogue: kite, pentagon, banana4/5, mercedes, all D)
# but did not finish within 50 minutes or was not run again after the last change, so it is not registered
THOROUGH_VALIDATED = {"C07", "C12", "C13", "C15", "C16", "C17", "C19", "C20"}
NA_PENDING = "check not built yet at this commit (planned, see DESIGN.md §6); not claimed"
NA = {
 "C01": "integral identity over the whole hypercube (unbiasedness): not an assertion over one execution or a bounded set of executions; no bounded solver query expresses it (DESIGN §6 C01). The pointwise facts it needs are claimed under C04, C06-C11, C13.",
}
props = [json.loads(l)["id"] for l in open(os.path.join(VERIF, "properties.jsonl"))]
checks, na = [], []
for pid in props:
    if pid in claimed and pid in P:
        e = P[pid]
        checks.append({
            "property_id": pid,
            "quick_cmd": "./check %s --tier quick" % pid,
            **({"thorough_cmd": "./check %s --tier thorough" % pid} if pid in THOROUGH_VALIDATED else {}),
            "evidence_file": "/verif/evidence/%s.json" % pid,
            "replay_cmd_template": "./check %s --replay {path}" % pid,
            "engine": e.get("engine", "symx"),
            "level_claimed": {"category": "model_checking", "text": e["text"], "design_ref": e["design_ref"]},
            "level_note": e["note"],
            "technique": e["technique"],
        })
    else:
        na.append({"property_id": pid, "reason": NA.get(pid, NA_PENDING)})
m = {
 "version": 1,
 "setup_cmd": "./setup.sh",
 "hooks": {
   "guard": "cargo feature `verif` (Cargo.toml [features] verif = [])",
   "enable": "the harness crates depend on momtrop with features = [\"log\", \"verif\"] (path = /repo); `log` is the repository's own feature",
   "baseline_off_cmd": "cd /repo && cargo test --workspace --no-fail-fast --offline",
   "source_commits": ["804d753"],
   "add_only": True,
 },
 "engines": [
   {"name": "symx", "path": "/verif/symx", "serves_properties": [c["property_id"] for c in checks if "symx" in c["engine"]],
    "kind_free_text": "symbolic execution of momtrop's generic code by instantiating T: MomTropFloat with a term-building scalar; path conditions and goals decided by z3 (one CLI process per query; z3 4.8.12 for real arithmetic, z3 5.1 for IEEE floating point); native replay of every counterexample through the same harness with T = f64"},
   {"name": "kani-harness", "path": "/verif/kani-harness", "serves_properties": ["C03", "C04", "C05", "C12"],
    "kind_free_text": "Kani 0.68 / CBMC 6.11 proof harnesses over the compiled table assembly (HashSet graph routines replaced by nondeterministic stubs) and over the Gamma-quantile wrapper (kernel replaced by an arbitrary f64)"},
   {"name": "mir2smt", "path": "/verif/engines/mir2smt.py", "serves_properties": ["C05", "C12", "C20"],
    "kind_free_text": "translation of loop-free MIR bodies (nightly -Zunpretty=mir of the current working tree) to SMT-LIB QF_FP / bit-vectors, decided by z3"},
 ],
 "checks": checks,
 "not_applicable": na,
 "notes": "All checks rebuild the harness crates against /repo's working tree. Exit 0 = held within the stated bounds; 1 = VIOLATION (replayed natively against the real build); 2 = inconclusive (vacuity guard, encoder validation or replay failed) - nothing claimed.",
}
json.dump(m, open(os.path.join(VERIF, "MANIFEST.json"), "w"), indent=1)
print("claimed:", [c["property_id"] for c in checks], "n/a:", [x["property_id"] for x in na])
