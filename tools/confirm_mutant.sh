#!/bin/sh
# usage: confirm_mutant.sh <incoming_dir> <i> <seed_id>
# Confirms in a scratch worktree that patch_i (a) applies to /repo HEAD, (b) builds with and without
# feature log, (c) passes the existing test suite, (d) makes demo_i fail while the clean tree passes it.
# Writes /verif/seeded/<seed_id>/{patch.diff,demo.rs,meta.json} on success.
dir="$1"; i="$2"; id="$3"
wt=/tmp/confirm_$id
log=/verif/work/confirm_$id.log
exec > "$log" 2>&1
git -C /repo worktree add -q --detach "$wt" HEAD || exit 9
cp /repo/Cargo.lock "$wt"/
cd "$wt" || exit 9
export CARGO_NET_OFFLINE=true
feat=$(python3 -c "import json;print(json.load(open('$dir/meta_$i.json')).get('demo_features','') or '')")
fflag=""; [ -n "$feat" ] && fflag="--features $feat"
cp "$dir/demo_$i.rs" tests/seeded_demo.rs
clean_demo=fail; cargo test --offline $fflag --test seeded_demo >/dev/null 2>&1 && clean_demo=pass
rm tests/seeded_demo.rs
applies=no; git apply "$dir/patch_$i.diff" && applies=yes
build=fail; cargo build --offline >/dev/null 2>&1 && cargo build --offline --features log >/dev/null 2>&1 && build=ok
suite=$(cargo test --offline 2>&1 | grep -E "^test result" | awk '{p+=$4; f+=$6} END {print p" passed "f" failed"}')
cp "$dir/demo_$i.rs" tests/seeded_demo.rs
mut_demo=pass; cargo test --offline $fflag --test seeded_demo >/dev/null 2>&1 || mut_demo=fail
git diff -- src > /tmp/confirm_$id.diff
cd /
git -C /repo worktree remove --force "$wt"
echo "RESULT id=$id applies=$applies clean_demo=$clean_demo build=$build suite=[$suite] mutated_demo=$mut_demo"
if [ "$applies" = yes ] && [ "$clean_demo" = pass ] && [ "$build" = ok ] && [ "$suite" = "35 passed 0 failed" ] && [ "$mut_demo" = fail ]; then
  mkdir -p /verif/seeded/$id
  cp /tmp/confirm_$id.diff /verif/seeded/$id/patch.diff
  cp "$dir/demo_$i.rs" /verif/seeded/$id/demo.rs
  python3 - "$dir/meta_$i.json" "$id" "$suite" <<'PY'
import json,sys
m=json.load(open(sys.argv[1])); 
out={"id":sys.argv[2],"property":m.get("property"),"summary":m.get("summary"),"needs_to_manifest":m.get("needs_to_manifest"),"demo_features":m.get("demo_features",""),
 "confirmed_by":"tools/confirm_mutant.sh in a scratch worktree of /repo HEAD: demo passes on the clean tree; with the patch: cargo build (default and --features log) ok, cargo test --offline: "+sys.argv[3]+", demo fails",
 "author_commands":m.get("commands_run")}
json.dump(out,open("/verif/seeded/%s/meta.json"%sys.argv[2],"w"),indent=1)
PY
  echo CONFIRMED
fi
rm -f /tmp/confirm_$id.diff
