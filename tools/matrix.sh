#!/bin/sh
# usage: tools/matrix.sh <tier> [seed-id ...]  — run each seeded mutant against the check of its property
tier="$1"; shift
cd /verif
ids="$@"; [ -z "$ids" ] && ids=$(ls seeded)
for id in $ids; do
  prop=$(python3 -c "import json;print(json.load(open('/verif/seeded/$id/meta.json'))['property'])")
  cd /repo; if ! git diff --quiet; then echo "$id /repo not clean"; exit 9; fi
  if ! git apply /verif/seeded/$id/patch.diff 2>/dev/null; then echo "$id $prop patch-does-not-apply"; continue; fi
  cd /verif
  s=$(date +%s)
  out=$(./check $prop --tier $tier 2>/dev/null); code=$?
  e=$(( $(date +%s) - s ))
  echo "$id $prop tier=$tier exit=$code vio=$(echo "$out" | grep -c '^VIOLATION') t=${e}s $(echo "$out" | grep -m1 -E '^INCONCLUSIVE' | cut -c1-160)"
  git -C /repo checkout -- .
done
