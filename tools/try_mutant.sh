#!/bin/sh
# usage: tools/try_mutant.sh <patch.diff> <tier> <PROP>...   — apply to /repo, run checks, always revert
patch="$1"; tier="$2"; shift 2
cd /repo || exit 9
if ! git diff --quiet; then echo "/repo not clean"; exit 9; fi
git apply "$patch" || { echo "patch does not apply"; exit 9; }
for p in "$@"; do
  out=$(cd /verif && ./check "$p" --tier "$tier" 2>/dev/null)
  code=$?
  echo "== $p exit=$code $(echo "$out" | grep -c VIOLATION) violation line(s); $(echo "$out" | grep -m1 -E 'VIOLATION|INCONCLUSIVE' | cut -c1-200)"
done
git -C /repo checkout -- . 
git -C /repo status --short | head -3
